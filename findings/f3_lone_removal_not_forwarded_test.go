package adaptation

// Demonstration of finding F3 (property C03): a plugin that only removes a device or an
// environment variable of the original container must have that removal forwarded to the
// runtime in the combined adjustment (as it is for mounts and annotations); otherwise
// applying the combined adjustment does not remove anything.
// Replayed against the real code by /verif/findings/run_f3.sh.

import (
	"testing"

	"github.com/containerd/nri/pkg/api"
)

func f3Result() *result {
	req := &CreateContainerRequest{Container: &api.Container{
		Id:     "c0",
		Env:    []string{"FOO=bar"},
		Linux:  &api.LinuxContainer{Devices: []*api.LinuxDevice{{Path: "/dev/x", Type: "c", Major: 1, Minor: 2}}},
		Mounts: []*api.Mount{{Destination: "/mnt", Source: "/src", Type: "bind"}},
	}}
	return collectCreateContainerResult(req)
}

// F3 (devices): failed before the fix commit, passes with it.
func TestF3LoneRemovalIsForwarded(t *testing.T) {
	r := f3Result()
	if err := r.adjustDevices([]*LinuxDevice{{Path: api.MarkForRemoval("/dev/x")}}, "A"); err != nil {
		t.Fatal(err)
	}
	if err := r.adjustMounts([]*Mount{{Destination: api.MarkForRemoval("/mnt")}}, "A"); err != nil {
		t.Fatal(err)
	}
	if n := len(r.reply.adjust.Mounts); n != 1 {
		t.Errorf("mounts: removal of /mnt not forwarded (%d entries)", n)
	}
	if n := len(r.reply.adjust.Linux.Devices); n != 1 {
		t.Errorf("C03: removal of /dev/x is not forwarded to the runtime (%d device entries in the combined adjustment)", n)
	}
}

// F3-env: failed before the fix commit f408ce1, passes with it.
func TestF3EnvLoneRemovalIsForwarded(t *testing.T) {
	r := f3Result()
	if err := r.adjustEnv([]*KeyValue{{Key: api.MarkForRemoval("FOO")}}, "A"); err != nil {
		t.Fatal(err)
	}
	if n := len(r.reply.adjust.Env); n != 1 {
		t.Errorf("C03: removal of FOO is not forwarded to the runtime (%d env entries in the combined adjustment)", n)
	}
}
