package multiplex

// Demonstration of finding F16 (property C10): Read must never report more bytes than the
// buffer it was given can hold; a message that does not fit is an error, not a silent
// truncation.  Replayed against the real code by /verif/findings/run_f16.sh.

import (
	"net"
	"testing"
	"time"
)

func TestF16ReadReportsMoreThanFits(t *testing.T) {
	a, b := net.Pipe()
	defer a.Close()
	defer b.Close()
	ma, mb := Multiplex(a), Multiplex(b)
	defer ma.Close()
	defer mb.Close()
	ca, err := ma.Open(ConnID(5))
	if err != nil {
		t.Fatal(err)
	}
	cb, err := mb.Open(ConnID(5))
	if err != nil {
		t.Fatal(err)
	}
	go func() { ca.Write([]byte("0123456789")) }()
	buf := make([]byte, 4, 64) // room for 4 bytes, capacity 64
	done := make(chan struct{})
	var n int
	go func() { n, err = cb.Read(buf); close(done) }()
	select {
	case <-done:
	case <-time.After(3 * time.Second):
		t.Fatal("read timed out")
	}
	if err == nil && n > len(buf) {
		t.Fatalf("Read returned n=%d for a buffer of length %d (6 bytes silently lost)", n, len(buf))
	}
}
