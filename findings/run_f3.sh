#!/bin/bash
# Replays finding F3 against the real code through a go test overlay (nothing is written to /repo).
export GOFLAGS=-mod=mod GOPROXY=off GOSUMDB=off GOTOOLCHAIN=local
ov=$(mktemp); trap 'rm -f $ov' EXIT
echo "{\"Replace\":{\"${REPO:-/repo}/pkg/adaptation/zz_f3_test.go\":\"/verif/findings/f3_lone_removal_not_forwarded_test.go\"}}" > $ov
cd ${REPO:-/repo} && go test -overlay $ov -vet=off -count=1 -timeout 60s -run "${F3TEST:-TestF3LoneRemovalIsForwarded}\$" ./pkg/adaptation/
