package stub

// Demonstration of finding F7 (property C16): after a failed Start the stub must be usable
// again on a fresh connection.  The runtime end drops the connection during the handshake;
// the first Start fails; a second Start must establish a new connection (dial again) instead
// of reusing the dead one.  Replayed against the real code by /verif/findings/run_f7.sh.

import (
	"context"
	stdnet "net"
	"sync/atomic"
	"testing"
	"time"

	"github.com/containerd/nri/pkg/api"
)

type f7plugin struct{}

func (f7plugin) Synchronize(context.Context, []*api.PodSandbox, []*api.Container) ([]*api.ContainerUpdate, error) {
	return nil, nil
}

func (f7plugin) RemoveContainer(context.Context, *api.PodSandbox, *api.Container) error { return nil }

func TestF7FailedStartMustNotKeepDeadConnection(t *testing.T) {
	var dials int32
	dialer := func(string) (stdnet.Conn, error) {
		atomic.AddInt32(&dials, 1)
		a, b := stdnet.Pipe()
		// the runtime end goes away at once
		go func() { time.Sleep(10 * time.Millisecond); b.Close() }()
		return a, nil
	}
	s, err := New(f7plugin{}, WithPluginName("f7"), WithPluginIdx("00"), WithDialer(dialer), WithOnClose(func() {}))
	if err != nil {
		t.Fatal(err)
	}
	st := s.(*stub)
	st.registrationTimeout = 500 * time.Millisecond
	ctx, cancel := context.WithTimeout(context.Background(), 3*time.Second)
	defer cancel()
	if err := s.Start(ctx); err == nil {
		t.Fatal("first Start unexpectedly succeeded")
	}
	if err := s.Start(ctx); err == nil {
		t.Fatal("second Start unexpectedly succeeded")
	}
	if n := atomic.LoadInt32(&dials); n != 2 {
		t.Fatalf("the stub dialed %d time(s) for two Start attempts: the second attempt reused the dead connection of the first", n)
	}
}
