package adaptation

// Demonstration of finding F2 (properties C02, C03, C04): plugin A sets annotation k, a
// later plugin B only removes it ("-k").  Afterwards the key must be free for plugin C, the
// container shown to later plugins must not have k, and the combined adjustment must not
// still carry A's value for k.  Replayed against the real code by /verif/findings/run_f2.sh.

import (
	"testing"

	"github.com/containerd/nri/pkg/api"
)

func TestF2LoneAnnotationRemoval(t *testing.T) {
	req := &CreateContainerRequest{Container: &api.Container{Id: "c0"}}
	r := collectCreateContainerResult(req)
	if err := r.adjustAnnotations(map[string]string{"k": "from-A"}, "A"); err != nil {
		t.Fatal(err)
	}
	if err := r.adjustAnnotations(map[string]string{"-k": ""}, "B"); err != nil {
		t.Fatal(err)
	}
	if _, shown := req.Container.Annotations["k"]; shown {
		t.Errorf("C04: annotation k removed by plugin B is still shown to later plugins")
	}
	if v, ok := r.reply.adjust.Annotations["k"]; ok {
		t.Errorf("C03: combined adjustment still sets k=%q after plugin B removed it", v)
	}
	if err := r.adjustAnnotations(map[string]string{"k": "from-C"}, "C"); err != nil {
		t.Errorf("C02: plugin C cannot set k after plugin B removed it: %v", err)
	}
}
