#!/bin/bash
# Replays finding F5 against the real code through a go test overlay (nothing is written to /repo).
export GOFLAGS=-mod=mod GOPROXY=off GOSUMDB=off GOTOOLCHAIN=local
ov=$(mktemp); trap 'rm -f $ov' EXIT
echo "{\"Replace\":{\"${REPO:-/repo}/pkg/runtime-tools/generate/zz_f5_test.go\":\"/verif/findings/f5_annotations_order_test.go\"}}" > $ov
cd ${REPO:-/repo} && go test -overlay $ov -vet=off -count=1 -timeout 60s -run TestF5RemoveThenSetSameAnnotation ./pkg/runtime-tools/generate/
