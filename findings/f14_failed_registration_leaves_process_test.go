package adaptation

// Demonstration of finding F14 (property C18): a plugin launched by NRI whose registration
// fails (or whose connection is lost before it registers) is dropped by NRI and must be
// killed like one that times out; otherwise its process keeps running unsupervised.
// Replayed against the real code by /verif/findings/run_f14.sh.

import (
	"errors"
	"net"
	"os/exec"
	"syscall"
	"testing"
	"time"
)

func TestF14FailedRegistrationKillsLaunchedPlugin(t *testing.T) {
	cmd := exec.Command("sleep", "60")
	if err := cmd.Start(); err != nil {
		t.Skip("cannot start a child process here:", err)
	}
	defer func() { cmd.Process.Kill(); cmd.Wait() }()

	a, b := net.Pipe()
	defer b.Close()
	r := &Adaptation{}
	p := &plugin{cmd: cmd, idx: "00", base: "f14", regC: make(chan error, 1), closeC: make(chan struct{}), r: r}
	if err := p.connect(a); err != nil {
		t.Fatal(err)
	}
	// the plugin's registration is refused (e.g. malformed index)
	p.regC <- errors.New("invalid plugin index")
	if err := p.start("test", "0"); err == nil {
		t.Fatal("start unexpectedly succeeded")
	}
	time.Sleep(100 * time.Millisecond)
	if err := cmd.Process.Signal(syscall.Signal(0)); err == nil {
		t.Fatalf("the launched plugin process (pid %d) is still running after NRI dropped it", cmd.Process.Pid)
	}
}
