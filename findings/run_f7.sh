#!/bin/bash
# Replays finding F7 against the real code through a go test overlay (nothing is written to /repo).
export GOFLAGS=-mod=mod GOPROXY=off GOSUMDB=off GOTOOLCHAIN=local
ov=$(mktemp); trap 'rm -f $ov' EXIT
echo "{\"Replace\":{\"${REPO:-/repo}/pkg/stub/zz_f7_test.go\":\"/verif/findings/f7_restart_after_failed_start_test.go\"}}" > $ov
cd ${REPO:-/repo} && go test -overlay $ov -vet=off -count=1 -timeout 60s -run TestF7FailedStartMustNotKeepDeadConnection ./pkg/stub/
