#!/bin/bash
# Replays finding F14 against the real code through a go test overlay (nothing is written to /repo).
export GOFLAGS=-mod=mod GOPROXY=off GOSUMDB=off GOTOOLCHAIN=local
ov=$(mktemp); trap 'rm -f $ov' EXIT
echo "{\"Replace\":{\"${REPO:-/repo}/pkg/adaptation/zz_f14_test.go\":\"/verif/findings/f14_failed_registration_leaves_process_test.go\"}}" > $ov
cd ${REPO:-/repo} && go test -overlay $ov -vet=off -count=1 -timeout 60s -run TestF14FailedRegistrationKillsLaunchedPlugin ./pkg/adaptation/
