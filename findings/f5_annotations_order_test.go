package generate

// Demonstration of finding F5 (property C13): an adjustment that both removes and sets
// the same annotation must end with the annotation set, whatever the map iteration order.
// Run against the real code (no file is written to /repo):
//   cd /repo && go test -overlay <(overlay json mapping pkg/runtime-tools/generate/zz_f5_test.go to this file) ...
// see /verif/findings/run_f5.sh

import (
	"testing"

	rspec "github.com/opencontainers/runtime-spec/specs-go"
	ogen "github.com/opencontainers/runtime-tools/generate"
)

func TestF5RemoveThenSetSameAnnotation(t *testing.T) {
	lost := 0
	for i := 0; i < 400; i++ {
		gg := ogen.NewFromSpec(&rspec.Spec{Annotations: map[string]string{"k": "old"}})
		g := SpecGenerator(&gg)
		if err := g.AdjustAnnotations(map[string]string{"-k": "", "k": "new"}); err != nil {
			t.Fatal(err)
		}
		if v, ok := g.Config.Annotations["k"]; !ok || v != "new" {
			lost++
		}
	}
	if lost != 0 {
		t.Fatalf("annotation k lost or stale in %d of 400 runs", lost)
	}
}
