#!/bin/bash
# Replays finding F16 against the real code through a go test overlay (nothing is written to /repo).
export GOFLAGS=-mod=mod GOPROXY=off GOSUMDB=off GOTOOLCHAIN=local
ov=$(mktemp); trap 'rm -f $ov' EXIT
echo "{\"Replace\":{\"${REPO:-/repo}/pkg/net/multiplex/zz_f16_test.go\":\"/verif/findings/f16_read_short_buffer_test.go\"}}" > $ov
cd ${REPO:-/repo} && go test -overlay $ov -vet=off -count=1 -timeout 60s -run TestF16ReadReportsMoreThanFits ./pkg/net/multiplex/
