#!/usr/bin/env python3
# Builds seeded/RESULTS.md and the table in DESIGN.md from seeded/<id>/result.txt, and records
# the outcome in seeded/<id>/meta.json (detected_by).
import json, os, re, glob
rows=[]
for d in sorted(glob.glob('/verif/seeded/C*/')):
    sid=os.path.basename(d.rstrip('/'))
    rt=os.path.join(d,'result.txt')
    res=open(rt).read() if os.path.exists(rt) else ''
    meta=json.load(open(os.path.join(d,'meta.json')))
    m=re.search(r'rc=(\d+) violations=(\d+)', res)
    first=''
    for l in res.splitlines():
        if l.startswith('VIOLATION'):
            first=re.sub(r'.*obligation=','',l)[:110]; break
    if 'not claimed' in res: status='property not claimed'
    elif m and int(m.group(2))>0: status='caught'
    elif m: status='MISSED'
    else: status='not run'
    what=re.sub(r'\s+',' ',meta.get('breaks',''))[:150]
    rows.append((sid,meta.get('property',''),status,first,what))
    meta['detected_by']={'status':status,'first_violation':first,'check':'bin/nriverif check --property %s --tier quick'%meta.get('property','')}
    json.dump(meta,open(os.path.join(d,'meta.json'),'w'),indent=1)
out=['# Seeded changes: which check reports which','',
 'Each change compiles, passes the 39 tests and breaks its property (demonstration test in its directory).',
 '`scripts_eval_seeds.sh` applied each patch to /repo, ran the quick check of the property and reverted.','',
 '| id | status | first obligation reported | what the change does |','|----|--------|---------------------------|----------------------|']
for sid,prop,status,first,what in rows:
    out.append(f'| {sid} | {status} | {first.replace("|","/")} | {what.replace("|","/")} |')
n=sum(1 for r in rows if r[2]=='caught'); t=len(rows)
out+=['',f'{n} of {t} caught; missed: '+', '.join(r[0] for r in rows if r[2]=='MISSED')+'; property not claimed: '+(', '.join(r[0] for r in rows if r[2]=='property not claimed') or 'none')+'.']
open('/verif/seeded/RESULTS.md','w').write('\n'.join(out)+'\n')
short=['| id | status | first obligation reported |','|----|--------|---------------------------|']+[f'| {r[0]} | {r[2]} | {r[3].replace("|","/")[:90]} |' for r in rows]
short+=['',f'{n} of {t} seeded changes are reported by the check of their property.']
open('/verif/seeded/table_short.md','w').write('\n'.join(short)+'\n')
print(n,'of',t)
