#!/bin/bash
# Confirms the round-3 seeded changes (seeded/C??d): the patch applies to the pinned tree, the
# existing tests pass with it, the demo fails with it and passes without it.  Uses one scratch
# worktree outside /repo and /verif, removed at the end.  Writes seeded/<id>/confirm.txt.
export GOFLAGS=-mod=mod GOPROXY=off GOSUMDB=off GOTOOLCHAIN=local
wt=/tmp/seedwt3
git -C /repo worktree remove --force $wt 2>/dev/null; rm -rf $wt
git -C /repo worktree add -q --detach $wt HEAD || exit 1
for d in /verif/seeded/C??d/; do
  id=$(basename $d)
  [ -n "$1" ] && [[ "$id" != $1* ]] && continue
  demo_path=$(python3 -c "import json;print(json.load(open('$d/meta.json'))['demo_path_in_repo'])")
  demo_cmd=$(python3 -c "import json;print(json.load(open('$d/meta.json'))['demo_cmd'])")
  cd $wt && git checkout -q -- . && git clean -fdq
  if ! git apply $d/patch.diff 2>/dev/null; then echo "$id APPLY-FAIL" | tee $d/confirm.txt; continue; fi
  ok=1
  (cd $wt && go build ./... >/dev/null 2>&1 && go test -vet=off -count=1 ./pkg/... >/tmp/seedwt3.t.log 2>&1) || ok=0
  (cd $wt/plugins/device-injector && go test -vet=off -count=1 ./... >>/tmp/seedwt3.t.log 2>&1) || ok=0
  (cd $wt/plugins/ulimit-adjuster && go test -vet=off -count=1 ./... >>/tmp/seedwt3.t.log 2>&1) || ok=0
  mkdir -p $(dirname $wt/$demo_path); cp $d/demo_test.go $wt/$demo_path
  (cd $wt && timeout 300 bash -c "$demo_cmd" >/tmp/seedwt3.d1.log 2>&1); r1=$?
  git apply -R $d/patch.diff
  (cd $wt && timeout 300 bash -c "$demo_cmd" >/tmp/seedwt3.d2.log 2>&1); r2=$?
  rm -f $wt/$demo_path; git checkout -q -- . ; git clean -fdq
  echo "$id suite_ok=$ok demo_with_patch_exit=$r1 demo_without_patch_exit=$r2" | tee $d/confirm.txt
done
cd /; git -C /repo worktree remove --force $wt; rm -rf $wt /tmp/seedwt3.*.log
