#!/usr/bin/env python3
# Generates MANIFEST.json from the table below (claimed properties) and properties.jsonl (all ids).
import json, subprocess
props=[json.loads(l) for l in open('/verif/properties.jsonl')]
ids=[p['id'] for p in props]
def commits():
    out=subprocess.run(['git','-C','/repo','log','--format=%H %s'],capture_output=True,text=True).stdout.strip().split('\n')
    return [l.split()[0] for l in out if ' verif:' in l]
TB="x/tools go/ssa (Go semantics), the nriverif VC generator, z3 5.1.0 / cvc5 1.0.3 / z3 4.8.12; library models and every trusted/assumed contract are listed in the evidence file under assumptions"
claimed={
 "C01": dict(text="Deductive proof, for all inputs and any number of plugins per call, that the ownership ledger (27 claim + 5 clear functions, 32 wrappers, ownersFor) grants an item to at most one plugin and that every creation-path adjust* function under contract returns an error when a set item is already owned and never changes the reply for it; obligations are generated from the SSA of the real functions and discharged by SMT solvers.",
             note="Functions under contract: the ledger, adjustAnnotations/Mounts/Devices/Env/CgroupsPath/OomScoreAdj/Args/CDIDevices/Rlimits/Resources and updateResources. For mounts/devices/env the claim is: success implies no set item was owned unless the same response removes it, and an owner that appears is the calling plugin (DESIGN.md S3/S4). result.apply is a trusted frame. "+TB, ref="5 C01"),
 "C02": dict(text="Deductive proof that claims succeed whenever the item is free (no spurious conflicts), that an error implies a real earlier owner, and that a removal marker releases the claim, for the functions under contract.",
             note="Same function set as C01. For annotations, mounts, devices and environment variables a removal (with or without a set) releases the earlier claim; for mounts/devices this uses the ledger/list representation invariant, which is proved preserved and assumed for the initial (empty) state. Conflict-freedom for the list families is not claimed. "+TB, ref="5 C02"),
 "C03": dict(text="Deductive proof of the merge postconditions (reply' = merge(reply, plugin response)) of the creation-path functions under contract: scalars, args, hooks, rlimits, CDI devices, all resource fields, hugepages, unified, annotations (set wins over removal, lone removal deletes and is forwarded), and for mounts/devices/env: every set entry is in the reply, an earlier entry removed by the response is gone, a removal without a set is forwarded to the runtime.",
             note="For mounts/devices/env the clause that untouched entries are kept is not claimed (solvers return unknown); the composition with the OCI generator is argued from C13, not proved as one theorem. "+TB, ref="5 C03"),
 "C04": dict(text="Deductive proof that the container view shown to later plugins is updated exactly like the reply for the functions under contract.",
             note="Same function set as C03; for mounts/devices: every set entry is in the view, no nil entry, and nothing the response removes or sets survives the filter (loop invariant); for environment variables only the filter half (keys are the text before the first '='). "+TB, ref="5 C04"),
 "C05": dict(text="Deductive proof of the update collection: getContainerUpdate (one entry per target id, self-update during creation rejected, own container kept out of the list), updateResources (every field claimed from the ledger, staged on a copy, committed to the entry and - for the container being updated - to the request only if every claim succeeded; on failure nothing is committed), result.update (an ignore-failure update never fails the request; the collected state stays well formed), the three response constructors (own entry appended last) and the collect* constructors (normalised request, empty collection).",
             note="result.apply/adjust are still used through a trusted write-set frame by the request loops, so the preconditions of result.update (a plugin's update shares no object with the collected state) are assumed there, not proved. Claims of a conflicting ignore-failure update stay in the ledger (observation, DESIGN.md). "+TB, ref="5 C05"),
 "C14": dict(text="Deductive proof of the optional-value constructors String/Int32/UInt32/Int64/UInt64/Bool: nil maps to unset, a value of the wrapper's own type to exactly that value in a fresh wrapper.",
             note="Also under contract: OptionalInt.Get, LinuxResources.Copy, DupStringSlice, Hook/Mount/LinuxDevice ToOCI, LinuxResources.ToOCI/FromOCILinuxResources, CheckPluginIndex, EventMask.Set. Event-mask print/parse and the remaining FromOCI directions are not covered. "+TB, ref="5 C14"),
}
claimed.update({
 "C06": dict(text="Deductive proof that every request/event dispatch loop (StateChange and its nine wrappers, UpdatePodSandbox, Create/Update/StopContainer) holds the adaptation lock exactly once around all relays, calls the relay of each plugin of the sorted list once and in slice order until a veto, passes the request unchanged, and prunes closed plugins; that each relay calls the implementation exactly when the event is subscribed; that sortPlugins orders by index (sort.Slice model) and that string order equals numeric order for two-digit indices (lemma).",
             note="result.apply is used through a static write-set frame only (trusted, no functional claim). Delivery inside ttrpc and the plugin process is outside the claim. "+TB, ref="5 C06"),
 "C07": dict(text="Deductive proof, for every (response, error) pair an implementation call can return, that a fatal error closes the plugin and lets the request continue with (nil, nil), a non-fatal error is returned as a veto, every implementation call carries a deadline created by context.WithTimeout, and no obligation of the relays/loops can panic.",
             note="Wall-clock bounds, byte-level transport faults and deadlock freedom inside ttrpc are not decidable by contracts (restricted claim). "+TB, ref="5 C07"),
 "C09": dict(text="Deductive proof of plugin.synchronize (slice bounds within the remaining lists, termination measure, the final accepted message covers the rest of both lists, failure closes the plugin), recalcObjsPerSyncMsg (bounds, strict progress, non-zero counts; real arithmetic for the float scaling) and the stub's collectSync/deliverSync (one handler call with the concatenation of all collected chunks).",
             note="The concatenation of the intermediate accepted chunks is argued inductively from the loop invariant (see DESIGN.md); transport size accounting inside ttrpc is out of scope. "+TB, ref="5 C09"),
 "C10": dict(text="Deductive proof of the write-side framing (mux.write: each iteration writes one header (id, size) and exactly the next size<=max bytes of the buffer under a single hold of the write lock; loop ends when the buffer is consumed) and of mux.Open (same id gives the same connection; queue capacity is the configured length).",
             note="mux.reader (lock discipline, fail-stop) and conn.Read (a message that fits is delivered whole and its length returned; one that does not fit is an error) are under contract; payload routing by byte contents, scheduler fairness and the bytes inside the trunk are out of scope. "+TB, ref="5 C10"),
 "C11": dict(text="Deductive proof of the fail-stop typestate: error latched once (setError/error), doneC channels closed only inside sync.Once (no double close), mux.Close closes every connection, the trunk and doneC exactly once and is idempotent, conn.Close takes the connection lock without re-entrance, a partial trunk write latches the error and closes the multiplexer.",
             note="'Returns promptly' (liveness) and the reader goroutine are not covered (restricted claim). "+TB, ref="5 C11"),
 "C15": dict(text="Deductive proof that setupHandlers sets handler k to the bound method of the plugin and subscription bit k exactly when the plugin implements interface k (plus a bit-vector lemma for the mask), that Configure clamps/rejects masks as documented and reports the result once, and that every request/event is dispatched to exactly the handler for it with the message's objects and returns the handler's results unchanged.",
             note="Interface satisfaction of the plugin's dynamic type is an uninterpreted predicate per interface. "+TB, ref="5 C15"),
 "C17": dict(text="Deductive proof of RegisterPlugin (empty name or non-two-digit index rejected and reported on the registration channel once; otherwise identity recorded), configure (mask validation for all 2^32 masks; call carries a deadline) and CheckPluginIndex.",
             note="plugin.start is under contract (a refused registration or a connection lost before it closes - and for a launched plugin kills - the plugin and never activates it); the socket directory mode and timeouts as wall-clock are out of scope. "+TB, ref="5 C17"),
 "C19": dict(text="Deductive proof that an unsolicited update reaches the runtime's update callback exactly once, with the plugin's list, under the adaptation lock (the same lock that serialises all requests), that results are passed back unchanged, and that an unstarted stub returns ErrNoService without calling the runtime.",
             note="Mutual exclusion follows from sync.Mutex semantics (trusted). "+TB, ref="5 C19"),
})
claimed.update({
 "C20": dict(text="Deductive proof, for every annotation map and container name, of the two sample plugins' request handlers: device-injector picks the container-scoped key before the pod-scoped before the bare key by presence (getAnnotation), decodes exactly that annotation, converts every decoded device/mount/CDI name field by field into the adjustment in order, and returns no adjustment at all when any decoding fails; ulimit-adjuster looks at the container-scoped key only, normalises each type as RLIMIT_+TrimPrefix(ToUpper(t)), fails the request for an unknown type or hard<soft, and otherwise emits exactly one rlimit per decoded entry with its limits. The adjustment builders of pkg/api they use are proved too.",
             note="The YAML decoder is modelled as an unknown deterministic library: it stores an arbitrary well-formed value and an arbitrary error (assumption listed in the evidence); strings.ToUpper is an uninterpreted function; the path from the handler through the stub and ttrpc is covered by C15, not here. "+TB, ref="5 C20"),
})
claimed.update({
 "C08": dict(text="Deductive proof of the sequential half of the property (restricted claim): the registration loop holds the sync lock exclusively from before the runtime's snapshot callback until after activation and releases it exactly once per iteration on every path (call-site assertions at syncFn and sortPlugins, loop invariant on the lock typestate); activation (append + sort) happens under the adaptation lock; BlockPluginSync takes one shared hold and Unblock releases exactly that hold once however often it is called.",
             note="The interleaving theorem itself (exactly-once over all schedules) is not decidable by contracts on sequential code and is not claimed; newExternalPlugin and plugin.start are trusted stubs. "+TB, ref="S3 / 5 C08"),
 "C13": dict(text="Deductive proof of the OCI generator wrappers: cgroups path, OOM score, args, rlimits (appended in order), all CPU fields, memory limit(+swap), pids, unified (every key set, all others untouched, for every map iteration order), annotations (a set wins over a removal of the same key for every iteration order; lone removals delete; other keys untouched), hooks/devices/mounts/CDI/block-IO/RDT as exact call traces to the embedded generator (which adder, how often, in which order, with which converted value), mount order (the comparator is a strict total order on destinations and the list is sorted by it after every mount adjustment), Hook.ToOCI/Mount.ToOCI/DupStringSlice conversions, and Adjust (order, error propagation, mounts sorted, rlimits last).",
             note="The embedded runtime-tools generator's loop-free setters are executed from their real bodies; its functions with loops (hugepage limit, device and mount list operations, environment) are external calls with assumed frames, so 'appears in the spec' for those families rests on the library (assumption listed in the evidence). AdjustEnv has only a safety/trace-count contract: order dependence inside it is detected through the loop structure, not through a functional postcondition. Host mount propagation is trusted. "+TB, ref="S3 / 5 C13"),
 "C16": dict(text="Deductive proof of the sequential clauses (restricted claim): Start on a started stub changes nothing and fails; every successful Start creates new doneC/srvErrC/cfgErrC channels and records all four transport objects; every failed Start leaves the stub not started, releases the lock, and - once the connection had been set up - forgets the connection so that a retry reconnects; close() resets started/conn/partial sync state; every exit of the multiplexer's reader has closed the multiplexer.",
             note="Termination within bounded time, Wait/notification timing and the late-notification clause (no session identity in connClosed: observation F10) are schedule/timing properties and are not claimed. connect/register are trusted stubs. "+TB, ref="S3 / 5 C16"),
 "C18": dict(text="Deductive proof of the parts that are ordinary code (restricted claim): the drop-in lookup reads <idx>-<name>.conf first and <name>.conf only if the first does not exist, stops at the first hit and fails on any other error; a launched plugin gets exactly the three environment variables (name, index, socket 3) and exactly one extra file; the socket pair is created AF_UNIX/SOCK_STREAM|SOCK_CLOEXEC; stop() kills and reaps exactly the launched process and nothing for external or WebAssembly plugins; index syntax and index order come from C17/C06.",
             note="What the operating system does with it (exec, descriptor inheritance in the child, reaping) and directory discovery are not covered; isWasm, plugin.connect and the wasm loader are trusted stubs. "+TB, ref="S3 / 5 C18"),
})
na_reason={
 "C08": "the property is about interleavings of concurrent registrations and creations under an RW lock; function contracts over sequential code cannot express 'for every schedule' (DESIGN.md section 5, C08). The lock discipline of the sequential pieces is covered under C06/C19.",
 "C13": "not yet built: the functions delegate to the external opencontainers generator; see DESIGN.md section 5, C13 for what is planned/possible",
 "C16": "termination within bounded time under connection loss at any byte offset, and late asynchronous notifications, are schedule/fault-sequence properties; no function contract within reach decides them (DESIGN.md section 5, C16)",
 "C18": "process launch, descriptor inheritance and reaping are operating-system effects outside any contract on Go code in /repo; the index/name parsing part is proved under C17 (CheckPluginIndex) (DESIGN.md section 5, C18)",
 "C12": "one of the two codecs is protobuf-go's reflection runtime (no code in /repo to put a contract on); the generated vtproto code needs induction over a recursive wire format that the installed solvers return unknown on (DESIGN.md section 5, C12)",
}
checks=[]
for i in ids:
    if i in claimed:
        c=claimed[i]
        checks.append({"property_id":i,
          "quick_cmd":f"bin/nriverif check --property {i} --tier quick",
          "thorough_cmd":f"bin/nriverif check --property {i} --tier thorough",
          "evidence_file":f"/verif/evidence/{i}.json",
          "replay_cmd_template":"bin/nriverif replay {path}",
          "engine":"nriverif",
          "level_claimed":{"category":"proof","text":c['text'],"design_ref":c['ref']},
          "level_note":c['note'],
          "technique":"contract-based deductive verification: weakest-precondition/symbolic-execution VCs over go/ssa of the real functions, contracts in build-tag-guarded comment files, discharged by z3/cvc5"})
na=[{"property_id":i,"reason":na_reason.get(i,"no check built for this property (see DESIGN.md status table)")} for i in ids if i not in claimed]
m={"version":1,
 "setup_cmd":"GOFLAGS=-mod=mod GOPROXY=off GOSUMDB=off GOTOOLCHAIN=local go build -o bin/nriverif ./cmd/nriverif",
 "hooks":{"guard":"verif","enable":"contract files pkg/*/contracts_verif.go carry //go:build verif; the engine loads /repo with -tags=verif",
          "baseline_off_cmd":"for m in $(cat /w/out/gomods.txt); do MF=$(cd /repo/$m && . /w/out/goenv.sh && gomodflag); (cd /repo/$m && go test $MF -json -vet=off -count=1 -timeout 25m ./...); done",
          "source_commits":commits(),"add_only":True},
 "engines":[{"name":"nriverif","path":"/verif/cmd/nriverif","serves_properties":sorted(claimed),"kind_free_text":"deductive program verifier for a subset of Go: go/packages+go/ssa -> symbolic execution with loop invariants, modular calls, frames -> SMT-LIB obligations -> z3/cvc5"}],
 "checks":checks,
 "notes":"Every check rebuilds its verification conditions from /repo's working tree. See DESIGN.md.",
 "not_applicable":na}
json.dump(m,open('/verif/MANIFEST.json','w'),indent=1)
print(len(checks),"checks;",len(na),"not applicable")
