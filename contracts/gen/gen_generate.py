#!/usr/bin/env python3
# contract of Generator.AdjustResources (OCI generator, C13) — generated
CPU=[("Period","Period","ptr"),("Quota","Quota","ptr"),("Shares","Shares","ptr"),("RealtimeRuntime","RealtimeRuntime","ptr"),("RealtimePeriod","RealtimePeriod","ptr"),("Cpus","Cpus","str"),("Mems","Mems","str")]
out=[]; w=out.append
w("")
w("// -- resources: every field the adjustment sets appears in the spec with that value")
w("//@ pure sres(g *Generator) = g.Generator.Config.Linux.Resources")
HP="(*github.com/opencontainers/runtime-tools/generate.Generator).AddLinuxResourcesHugepageLimit"
w(f"// assumed (the function has a loop): it creates the sections it needs and writes only the hugepage list")
w(f"//@ extern {HP}(g *generate.Generator, pageSize string, limit uint64)")
w("//@   modifies g.Config, g.Config.Linux, g.Config.Linux.Resources, g.Config.Linux.Resources.HugepageLimits, elems(g.Config.Linux.Resources.HugepageLimits)")
w("//@   ensures g.Config != nil && g.Config.Linux != nil && g.Config.Linux.Resources != nil && (old(g.Config.Process) != nil ==> g.Config.Process == old(g.Config.Process))")
w("//@   ensures (old(g.Config) != nil ==> g.Config == old(g.Config)) && (old(g.Config.Linux) != nil ==> g.Config.Linux == old(g.Config.Linux)) && (old(g.Config.Linux.Resources) != nil ==> g.Config.Linux.Resources == old(g.Config.Linux.Resources))")
w("//@   ensures (old(g.Config) == nil ==> fresh(g.Config)) && (old(g.Config.Linux) == nil ==> fresh(g.Config.Linux)) && (old(g.Config.Linux.Resources) == nil ==> fresh(g.Config.Linux.Resources) && zeroedexcept(g.Config.Linux.Resources, \"HugepageLimits\"))")
w("//@   ensures base(g.Config.Linux.Resources.HugepageLimits) == old(base(g.Config.Linux.Resources.HugepageLimits)) || fresh(g.Config.Linux.Resources.HugepageLimits)")
w("")
w("//@ func Generator.AdjustResources")
w("//@   props C13")
w("//@   requires g != nil && g.Generator != nil && (r != nil ==> noNilHPg(r.HugepageLimits))")
w("//@   modifies @writes")
w("//@   ensures [nil]    r == nil ==> result == nil && cfg(g) == old(cfg(g))")
w("//@   ensures [kept]   sectionsKept(g) && (old(cfg(g).Linux.Resources) != nil ==> sres(g) == old(cfg(g).Linux.Resources))")
w("//@   ensures [sect]   r != nil ==> cfg(g) != nil && cfg(g).Linux != nil")
for f,sf,kind in CPU:
    if kind=="ptr":
        w(f"//@   ensures [cpu.{f}] r != nil && r.Cpu != nil && r.Cpu.{f} != nil ==> sres(g) != nil && sres(g).CPU != nil && sres(g).CPU.{sf} != nil && deref(sres(g).CPU.{sf}) == r.Cpu.{f}.Value")
        w(f"//@   ensures [cpu.{f}.keep] r != nil && (r.Cpu == nil || r.Cpu.{f} == nil) && old(sres(g).CPU) != nil ==> sres(g).CPU.{sf} == old(sres(g).CPU.{sf})")
    else:
        w(f"//@   ensures [cpu.{f}] r != nil && r.Cpu != nil && r.Cpu.{f} != \"\" ==> sres(g) != nil && sres(g).CPU != nil && sres(g).CPU.{sf} == r.Cpu.{f}")
        w(f"//@   ensures [cpu.{f}.keep] r != nil && (r.Cpu == nil || r.Cpu.{f} == \"\") && old(sres(g).CPU) != nil ==> sres(g).CPU.{sf} == old(sres(g).CPU.{sf})")
w("//@   ensures [mem]    r != nil && r.Memory != nil && r.Memory.Limit != nil && r.Memory.Limit.Value != 0 ==> sres(g) != nil && sres(g).Memory != nil && sres(g).Memory.Limit != nil && deref(sres(g).Memory.Limit) == r.Memory.Limit.Value")
w("//@                    && sres(g).Memory.Swap != nil && deref(sres(g).Memory.Swap) == r.Memory.Limit.Value")
w("//@   ensures [mem.keep] r != nil && (r.Memory == nil || r.Memory.Limit == nil || r.Memory.Limit.Value == 0) && old(sres(g).Memory) != nil ==> sres(g).Memory.Limit == old(sres(g).Memory.Limit) && sres(g).Memory.Swap == old(sres(g).Memory.Swap)")
w("//@   ensures [pids]   r != nil && r.Pids != nil ==> sres(g) != nil && sres(g).Pids != nil && sres(g).Pids.Limit == r.Pids.Limit")
w("//@   ensures [uni]    r != nil && r.Unified != old(sres(g).Unified) ==> (forall k string :: has(r.Unified, k) ==> has(sres(g).Unified, k) && sres(g).Unified[k] == r.Unified[k])")
w("//@   ensures [uni.keep] r != nil && r.Unified != old(sres(g).Unified) ==> (forall k string :: !has(r.Unified, k) ==> has(sres(g).Unified, k) == old(has(sres(g).Unified, k)) && sres(g).Unified[k] == old(sres(g).Unified[k]))")
w('//@   ensures [check]  r != nil && g.checkResources != nil ==> ncalls("func:generate.Generator.checkResources") == old(ncalls("func:generate.Generator.checkResources")) + 1')
w('//@                    && callarg("func:generate.Generator.checkResources", old(ncalls("func:generate.Generator.checkResources")), 1) == sres(g)')
w('//@                    && ((callret("func:generate.Generator.checkResources", old(ncalls("func:generate.Generator.checkResources")), 0) != nil) <==> (result != nil))')
w("//@   ensures [nocheck] r != nil && g.checkResources == nil ==> result == nil")
# loops: 1 = hugepages, 2 = unified
INV="cfg(g) != nil && cfg(g).Linux != nil && linuxKept(g)"
w(f"//@   loop 1 modifies cfg(g).Linux.Resources, sres(g).HugepageLimits, elems(sres(g).HugepageLimits), calls(\"{HP}\")")
w(f"//@   loop 1 invariant 0 <= idx + 1 && idx + 1 <= len(r.HugepageLimits) && {INV} && cfg(g) == pre(cfg(g)) && cfg(g).Linux == pre(cfg(g).Linux)")
w("//@   loop 1 invariant (pre(sres(g)) != nil ==> sres(g) == pre(sres(g))) && (pre(sres(g)) == nil && sres(g) != nil ==> prefresh(sres(g)) && zeroedexcept(sres(g), \"HugepageLimits\"))")
w("//@   loop 1 invariant base(sres(g).HugepageLimits) == pre(base(sres(g).HugepageLimits)) || prefresh(sres(g).HugepageLimits)")
w("//@   loop 2 modifies cfg(g).Linux.Resources, sres(g).Unified, map(sres(g).Unified)")
w(f"//@   loop 2 invariant {INV} && cfg(g) == pre(cfg(g)) && cfg(g).Linux == pre(cfg(g).Linux)")
w("//@   loop 2 invariant (pre(sres(g)) != nil ==> sres(g) == pre(sres(g))) && (pre(sres(g)) == nil && sres(g) != nil ==> prefresh(sres(g)) && zeroedexcept(sres(g), \"Unified\"))")
w("//@   loop 2 invariant (pre(sres(g).Unified) != nil ==> sres(g).Unified == pre(sres(g).Unified)) && (pre(sres(g).Unified) == nil && sres(g).Unified != nil ==> prefresh(sres(g).Unified))")
w("//@   loop 2 invariant r.Unified != pre(sres(g).Unified) ==> (forall k string :: visited(k) ==> has(sres(g).Unified, k) && sres(g).Unified[k] == r.Unified[k])")
w("//@   loop 2 invariant r.Unified != pre(sres(g).Unified) ==> (forall k string :: !visited(k) ==> has(sres(g).Unified, k) == pre(has(sres(g).Unified, k)) && sres(g).Unified[k] == pre(sres(g).Unified[k]))")
w("//@   loop 2 invariant r.Unified != pre(sres(g).Unified) ==> (forall k string :: has(r.Unified, k) == pre(has(r.Unified, k)) && r.Unified[k] == pre(r.Unified[k])) && (forall j string :: visited(j) ==> has(r.Unified, j))")
open('/verif/contracts/gen/generate_20_resources.txt','w').write("\n".join(out)+"\n")

# ---------------------------------------------------------------------------
# AdjustHooks: six lists; the hooks of each kind are handed, converted and in order, to the adder of that kind
out=[]; w=out.append
L=[("Prestart","AddPreStartHook",True),("Poststart","AddPostStartHook",True),("Poststop","AddPostStopHook",True),
   ("CreateRuntime","AddCreateRuntimeHook",False),("CreateContainer","AddCreateContainerHook",False),("StartContainer","AddStartContainerHook",False)]
OG="(*github.com/opencontainers/runtime-tools/generate.Generator)"
def cls(l,ad,lib): return f"{OG}.{ad}" if lib else f"generate.{ad}"
w("")
w("// -- hooks: every given hook is converted field by field and handed, in order, to the adder of its kind")
w("//@ pure sameStrsG(a []string, b []string) = len(a) == len(b) && (forall i int :: 0 <= i && i < len(b) ==> a[i] == b[i])")
w("//@ pure hookIs(x rspec.Hook, h *nri.Hook) = x.Path == h.Path && sameStrsG(x.Args, h.Args) && sameStrsG(x.Env, h.Env)")
w("//@      && (h.Timeout == nil ==> x.Timeout == nil) && (h.Timeout != nil ==> x.Timeout != nil && deref(x.Timeout) == int(h.Timeout.Value))")
w("//@ pure noNilHooks(s []*nri.Hook) = forall i int :: 0 <= i && i < len(s) ==> allocated(s[i])")
w("//@ pure shooks(g *Generator) = g.Generator.Config.Hooks")
w("// the three adders of the embedded generator: assumed to touch only their own list (their bodies are one append)")
for l,ad,lib in L:
    if lib:
        w(f"//@ extern {OG}.{ad}(g *generate.Generator, hook rspec.Hook)")
        w(f"//@   modifies g.Config, g.Config.Hooks, g.Config.Hooks.{l}, elems(g.Config.Hooks.{l})")
        w("//@   ensures (old(g.Config) != nil ==> g.Config == old(g.Config)) && (old(g.Config.Process) != nil ==> g.Config.Process == old(g.Config.Process)) && (old(g.Config.Linux) != nil ==> g.Config.Linux == old(g.Config.Linux))")
w("// the three adders defined here: one append to their own list")
for l,ad,lib in L:
    if not lib:
        w(f"//@ func Generator.{ad}")
        w("//@   props C13")
        w(f"//@   logs generate.{ad}")
        w("//@   requires g != nil && g.Generator != nil")
        w(f"//@   modifies g.Generator.Config, g.Generator.Config.Hooks, g.Generator.Config.Hooks.{l}, elems(g.Generator.Config.Hooks.{l})")
        w(f"//@   ensures [app]  shooks(g) != nil && len(shooks(g).{l}) == old(len(shooks(g).{l})) + 1 && shooks(g).{l}[old(len(shooks(g).{l}))] == hook")
        w(f"//@   ensures [pre]  forall i int :: 0 <= i && i < old(len(shooks(g).{l})) ==> shooks(g).{l}[i] == old(shooks(g).{l}[i])")
        w(f"//@   ensures [kept] cfgKept(g) && (old(shooks(g)) != nil ==> shooks(g) == old(shooks(g)))")
w("//@ func Generator.AdjustHooks")
w("//@   props C13")
w("//@   requires g != nil && g.Generator != nil && (hooks != nil ==> "+" && ".join(f"noNilHooks(hooks.{l})" for l,_,_ in L)+")")
w("//@   modifies @writes")
w("//@   ensures [sect] sectionsKept(g)")
for l,ad,lib in L:
    C='"'+cls(l,ad,lib)+'"'
    w(f"//@   ensures [{l}.nil] hooks == nil ==> ncalls({C}) == old(ncalls({C}))")
    w(f"//@   ensures [{l}] hooks != nil ==> ncalls({C}) == old(ncalls({C})) + len(hooks.{l})")
    w(f"//@                  && (forall i int :: 0 <= i && i < len(hooks.{l}) ==> callarg({C}, old(ncalls({C})) + i, 0) == {'g.Generator' if lib else 'g'} && hookIs(callarg({C}, old(ncalls({C})) + i, 1), hooks.{l}[i]))")
for n,(l,ad,lib) in enumerate(L,1):
    C='"'+cls(l,ad,lib)+'"'
    w(f"//@   loop {n} invariant 0 <= idx + 1 && idx + 1 <= len(hooks.{l}) && ncalls({C}) == pre(ncalls({C})) + idx + 1 && sectionsKept(g)")
    w(f"//@   loop {n} invariant forall i int :: 0 <= i && i <= idx ==> callarg({C}, pre(ncalls({C})) + i, 0) == {'g.Generator' if lib else 'g'} && hookIs(callarg({C}, pre(ncalls({C})) + i, 1), hooks.{l}[i])")
    for m,(l2,ad2,lib2) in enumerate(L,1):
        if m>=n: break
        C2='"'+cls(l2,ad2,lib2)+'"'
        w(f"//@   loop {n} invariant forall i int :: 0 <= i && i < len(hooks.{l2}) ==> hookIs(callarg({C2}, old(ncalls({C2})) + i, 1), hooks.{l2}[i])")
open('/verif/contracts/gen/generate_30_hooks.txt','w').write("\n".join(out)+"\n")
