#!/usr/bin/env python3
out=[]; w=out.append
w('''//go:build verif

// Machine-checked contracts for package stub (comment-only; build tag "verif").
// Read by /verif/bin/nriverif.

package stub

// ---------------------------------------------------------------------------
// Dispatch (stub.go): every request or event is handed to exactly the handler
// registered for it, with the objects carried by the message, and the handler's
// results are returned unchanged.  Handler calls are ghost-logged per handler field
// (call class "func:stub.handlers.<Field>"; slot 0 is the function value, slot 1 the
// context, then the arguments).
// ---------------------------------------------------------------------------
''')
def H(f): return f'"func:stub.handlers.{f}"'
EV=[("Event_RUN_POD_SANDBOX","RunPodSandbox",False),("Event_POST_UPDATE_POD_SANDBOX","PostUpdatePodSandbox",False),("Event_STOP_POD_SANDBOX","StopPodSandbox",False),
    ("Event_REMOVE_POD_SANDBOX","RemovePodSandbox",False),("Event_POST_CREATE_CONTAINER","PostCreateContainer",True),("Event_START_CONTAINER","StartContainer",True),
    ("Event_POST_START_CONTAINER","PostStartContainer",True),("Event_POST_UPDATE_CONTAINER","PostUpdateContainer",True),("Event_REMOVE_CONTAINER","RemoveContainer",True)]
w("//@ func stub.StateChange")
w("//@   props C15")
w("//@   requires stub != nil && evt != nil")
w("//@   modifies "+", ".join(f"calls({H(f)})" for _,f,_ in EV))
w("//@   ensures [reply] result.0 != nil")
for E,f,hasC in EV:
    c=H(f)
    args=f"callarg({c}, old(ncalls({c})), 2) == evt.Pod"+(f" && callarg({c}, old(ncalls({c})), 3) == evt.Container" if hasC else "")
    others=" && ".join(f"ncalls({H(g)}) == old(ncalls({H(g)}))" for _,g,_ in EV if g!=f)
    w(f"//@   ensures [{f}.call]  evt.Event == api.{E} && stub.handlers.{f} != nil ==> ncalls({c}) == old(ncalls({c})) + 1 && callarg({c}, old(ncalls({c})), 0) == stub.handlers.{f} && {args}")
    w(f"//@                       && result.1 == callret({c}, old(ncalls({c})), 0) && {others}")
    w(f"//@   ensures [{f}.none]  evt.Event == api.{E} && stub.handlers.{f} == nil ==> result.1 == nil && ncalls({c}) == old(ncalls({c})) && {others}")
allsame=" && ".join(f"ncalls({H(g)}) == old(ncalls({H(g)}))" for _,g,_ in EV)
w("//@   ensures [other] "+" && ".join(f"evt.Event != api.{E}" for E,_,_ in EV)+f" ==> result.1 == nil && {allsame}")
w("")
# request handlers
REQ=[("CreateContainer","CreateContainer",["req.Pod","req.Container"],["Adjust","Update"]),
     ("UpdateContainer","UpdateContainer",["req.Pod","req.Container","req.LinuxResources"],["Update"]),
     ("StopContainer","StopContainer",["req.Pod","req.Container"],["Update"]),
     ("UpdatePodSandbox","UpdatePodSandbox",["req.Pod","req.OverheadLinuxResources","req.LinuxResources"],[])]
for fn,f,args,outs in REQ:
    c=H(f)
    w(f"//@ func stub.{fn}")
    w("//@   props C15")
    w("//@   requires stub != nil && req != nil")
    w(f"//@   modifies calls({c})")
    a=" && ".join(f"callarg({c}, old(ncalls({c})), {i+2}) == {x}" for i,x in enumerate(args))
    o=" && ".join(f"result.0.{fld} == callret({c}, old(ncalls({c})), {i})" for i,fld in enumerate(outs))
    errslot=len(outs)
    w(f"//@   ensures [call]  stub.handlers.{f} != nil ==> ncalls({c}) == old(ncalls({c})) + 1 && callarg({c}, old(ncalls({c})), 0) == stub.handlers.{f} && {a}")
    w(f"//@                   && result.0 != nil"+(" && "+o if o else "")+f" && result.1 == callret({c}, old(ncalls({c})), {errslot})")
    w(f"//@   ensures [none]  stub.handlers.{f} == nil ==> ncalls({c}) == old(ncalls({c})) && result.0 != nil && result.1 == nil")
    w("")
# unsolicited updates (C19, stub side)
c='"api.RuntimeService.UpdateContainers"'
w("//@ func stub.UpdateContainers")
w("//@   props C19")
w("//@   requires stub != nil")
w(f"//@   modifies calls({c})")
w(f"//@   ensures [noservice] stub.runtime == nil ==> result.0 == nil && result.1 == ErrNoService && ncalls({c}) == old(ncalls({c}))")
w(f"//@   ensures [once]      stub.runtime != nil ==> ncalls({c}) == old(ncalls({c})) + 1 && callarg({c}, old(ncalls({c})), 0) == stub.runtime && callarg({c}, old(ncalls({c})), 2).Update == update")
w(f"//@   ensures [result]    stub.runtime != nil ==> result.1 == callret({c}, old(ncalls({c})), 1)")
w(f"//@                       && (callret({c}, old(ncalls({c})), 0) != nil ==> result.0 == callret({c}, old(ncalls({c})), 0).Failed)")
w(f"//@                       && (callret({c}, old(ncalls({c})), 0) == nil ==> result.0 == nil)")
open('/verif/contracts/gen/stub_10_dispatch.txt','w').write("\n".join(out)+"\n")
