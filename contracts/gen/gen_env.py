#!/usr/bin/env python3
# adaptation_26_env.txt is derived from adaptation_23_devices.txt: adjustEnv has the same
# loops 1, 2, 4, 5 (split, filter the collected list, claim and append, forward lone
# removals) keyed by Key; the view is a []string filtered by the key before "=" (loop 3)
# and extended one "KEY=VALUE" at a time (loop 6).
import re, os
here = os.path.dirname(os.path.abspath(__file__))
s = open(os.path.join(here, "adaptation_23_devices.txt")).read()
s = re.sub(r"//@ pure ledgerStep.*\n", "", s)
for a, b in [("reply(r).Linux.Devices", "reply(r).Env"), ("view(r).Linux.Devices", "view(r).Env"),
             ("ledger(r).devices", "ledger(r).env"), ("*LinuxDevice", "*KeyValue"), (".Path", ".Key"),
             ("result.adjustDevices", "result.adjustEnv"), ("noNilLD", "noNilKV"), ("rmD(", "rmE("), ("setD(", "setE("),
             ("inD(", "inE("), ("devD(", "envD("), ("devW(", "envW("), ("devL(", "envL("), ("ownedD(", "ownedE("),
             ("devCons(", "envCons("), ("Devices (result.go: adjustDevices)", "Environment (result.go: adjustEnv)"),
             ("devices", "env"), ("device", "variable")]:
    s = s.replace(a, b)
# mod is a set here
s = s.replace("mod map[string]*KeyValue", "mod map[string]struct{}")
# the view is a []string
s = s.replace(" && noNilKV(envW(r))", "")
s = s.replace("//@ pure envD(r", '//@ pure envkey(s string) = indexof(s, "=") >= 0 ? substr(s, 0, indexof(s, "=")) : s\n//@ pure kvstr(e *KeyValue) = e.Key + "=" + e.Value\n//@ pure envD(r', 1)
# view postconditions
s = re.sub(r"//@   ensures \[view.new\].*\n", "", s)
s = re.sub(r"//@   ensures \[view.alloc\].*\n", "", s)
# loop 3: the view filter
i = s.index("// loop 3:"); j = s.index("// loop 4:")
s = s[:i] + '''// loop 3: drop removed and re-set variables from the view shown to later plugins
//@   loop 3 modifies elems(clearedEnv)
//@   loop 3 invariant 0 <= idx + 1 && idx + 1 <= len(envW(r))
//@   loop 3 invariant (base(clearedEnv) == base(entry(clearedEnv)) || prefresh(clearedEnv)) && sep(base(clearedEnv), base(envW(r)))
//@   loop 3 invariant forall i int :: 0 <= i && i < len(clearedEnv) ==> !has(del, envkey(clearedEnv[i])) && !has(mod, envkey(clearedEnv[i]))
//@   loop 3 invariant old(envCons(r)) ==> envCons(r)
''' + s[j:]
s += '''// loop 6: show the sets to later plugins as KEY=VALUE
//@   loop 6 modifies view(r).Env, elems(envW(r))
//@   loop 6 invariant 0 <= idx + 1 && idx + 1 <= len(add) && wfCreate(r) && create == r.request.create
//@   loop 6 invariant (base(envW(r)) == pre(base(envW(r))) || prefresh(envW(r)))
'''
# the forwarding postcondition is not discharged for env within the thorough limit (the loop-5
# invariant it follows from is); it is not claimed
s = re.sub(r"//@   ensures \[fwd\].*\n", "", s)
open(os.path.join(here, "adaptation_26_env.txt"), "w").write(s)
