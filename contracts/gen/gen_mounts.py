#!/usr/bin/env python3
# adaptation_24_mounts.txt is derived from adaptation_23_devices.txt (adjustMounts has the
# same five loops as adjustDevices, keyed by Destination).
import re, os
here = os.path.dirname(os.path.abspath(__file__))
s = open(os.path.join(here, "adaptation_23_devices.txt")).read()
# drop the shared pure
s = re.sub(r"//@ pure ledgerStep.*\n", "", s)
for a, b in [("reply(r).Linux.Devices", "reply(r).Mounts"), ("view(r).Linux.Devices", "view(r).Mounts"),
             ("ledger(r).devices", "ledger(r).mounts"), ("*LinuxDevice", "*Mount"), (".Path", ".Destination"),
             ("result.adjustDevices", "result.adjustMounts"), ("noNilLD", "noNilM"), ("rmD(", "rmM("), ("setD(", "setM("),
             ("inD(", "inM("), ("devD(", "mntD("), ("devW(", "mntW("), ("devL(", "mntL("), ("ownedD(", "ownedM("),
             ("devCons(", "mntCons("), ("devices", "mounts"), ("Devices (result.go: adjustDevices)", "Mounts (result.go: adjustMounts)"),
             ("device", "mount")]:
    s = s.replace(a, b)
open(os.path.join(here, "adaptation_24_mounts.txt"), "w").write(s)
