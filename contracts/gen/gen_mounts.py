#!/usr/bin/env python3
# adaptation_24_mounts.txt is derived from adaptation_23_devices.txt (adjustMounts has the
# same four loops as adjustDevices, keyed by Destination) plus loop 5, which forwards the
# removal markers that have no set in the same response.
import re, os
here = os.path.dirname(os.path.abspath(__file__))
s = open(os.path.join(here, "adaptation_23_devices.txt")).read()
# drop the shared pure
s = re.sub(r"//@ pure ledgerStep.*\n", "", s)
for a, b in [("reply(r).Linux.Devices", "reply(r).Mounts"), ("view(r).Linux.Devices", "view(r).Mounts"),
             ("ledger(r).devices", "ledger(r).mounts"), ("*LinuxDevice", "*Mount"), (".Path", ".Destination"),
             ("result.adjustDevices", "result.adjustMounts"), ("noNilLD", "noNilM"), ("rmD(", "rmM("), ("setD(", "setM("),
             ("inD(", "inM("), ("devD(", "mntD("), ("devW(", "mntW("), ("devL(", "mntL("), ("ownedD(", "ownedM("),
             ("devCons(", "mntCons("), ("devices", "mounts"), ("Devices (result.go: adjustDevices)", "Mounts (result.go: adjustMounts)"),
             ("device", "mount")]:
    s = s.replace(a, b)
k = "//@   loop 1 invariant forall p string :: has(mod, p) ==> (exists j int"
i = s.index(k); j = s.index("\n", i) + 1
s = s[:j] + "//@   loop 1 invariant forall p string :: has(del, p) ==> allocated(del[p]) && inM(mounts, del[p]) && del[p].Destination == \"-\" + p\n" + s[j:]
s += '''// loop 5: forward the removal markers that have no set in this response (ranges over del)
//@   loop 5 modifies reply(r).Mounts, elems(mntD(r))
//@   loop 5 invariant wfCreate(r) && cid(r) == old(cid(r)) && create == r.request.create
//@   loop 5 invariant (base(mntD(r)) == pre(base(mntD(r))) || prefresh(mntD(r))) && sep(base(mntD(r)), base(add)) && sep(base(mntD(r)), base(mntW(r))) && sep(base(mntD(r)), base(mounts))
//@   loop 5 invariant len(mntD(r)) >= pre(len(mntD(r))) && (forall k int :: 0 <= k && k < pre(len(mntD(r))) ==> mntD(r)[k] == pre(mntD(r)[k]))
//@   loop 5 invariant forall j string :: visited(j) ==> has(del, j)
//@   loop 5 invariant forall k string :: visited(k) && !has(mod, k) ==> inM(mntD(r), del[k])
//@   loop 5 invariant old(mntCons(r)) ==> mntCons(r)
//@   loop 5 invariant forall j int :: 0 <= j && j < len(mounts) && !markedK(mounts[j].Destination) ==> inM(mntD(r), mounts[j])
'''
s = re.sub(r"//@   ensures \[reply.gone\].*\n", '//@   ensures [fwd] @thorough result == nil ==> (forall p string :: rmM(mounts, p) && !setM(mounts, p) ==> (exists i int :: 0 <= i && i < len(mntD(r)) && mntD(r)[i].Destination == "-" + p))\n', s)
s = s.replace("//@   ensures [view.gone.set] result", "//@   ensures [view.gone.set] @thorough result")
open(os.path.join(here, "adaptation_24_mounts.txt"), "w").write(s)
