#!/bin/bash
# Assembles the contract files in /repo from the parts kept here.  The assembled
# files are what the checks read; this script is only an authoring aid.
set -e
cd "$(dirname "$0")"
python3 gen_mounts.py
python3 gen_env.py
declare -A dirs=( [adaptation]=pkg/adaptation [api]=pkg/api [stub]=pkg/stub [net]=pkg/net [multiplex]=pkg/net/multiplex [generate]=pkg/runtime-tools/generate [deviceinjector]=plugins/device-injector [ulimitadjuster]=plugins/ulimit-adjuster )
for pkg in "${!dirs[@]}"; do
  ls ${pkg}_*.txt >/dev/null 2>&1 || continue
  cat ${pkg}_*.txt > ${REPO:-/repo}/${dirs[$pkg]}/contracts_verif.go
done
