#!/bin/bash
# Assembles the contract files in /repo from the parts kept here.  The assembled
# files are what the checks read; this script is only an authoring aid.
set -e
cd "$(dirname "$0")"
for pkg in adaptation; do
  out=/repo/pkg/$pkg/contracts_verif.go
  cat ${pkg}_*.txt > $out
done
