#!/bin/bash
# usage: scripts_eval_seeds_scratch.sh id...  Same as scripts_eval_seeds.sh but on a scratch copy of /repo HEAD with the patch applied (bin/nriverif check --repo DIR), so several can run at once and /repo is never touched.
export GOFLAGS=-mod=mod GOPROXY=off GOSUMDB=off GOTOOLCHAIN=local NRIVERIF_NOEVIDENCE=1
cd /verif
for id in "$@"; do
  prop=${id:0:3}; d=/tmp/r3/ev_$id
  rm -rf $d; mkdir -p $d; git -C /repo archive HEAD | tar -x -C $d
  (cd $d && git init -q . && git apply /verif/seeded/$id/patch.diff) || { echo "$id APPLY-FAILED"; continue; }
  out=$(bin/nriverif check --property $prop --repo $d 2>&1); rc=$?
  rm -rf $d
  n=$(echo "$out" | grep -c "^VIOLATION")
  first=$(echo "$out" | grep "^VIOLATION" | head -3 | sed 's/.*obligation=//' | cut -c1-160 | tr '\n' ';')
  echo "$id rc=$rc violations=$n $first"
  { echo "rc=$rc violations=$n"; echo "$out" | grep -E "^VIOLATION|CHECK-BROKEN|^C[0-9]+ \[" | cut -c1-400; } > seeded/$id/result.txt
done
