#!/bin/bash
# usage: try_mutant.sh <patch> <property> [extra args]  -- applies patch to /repo, runs check, reverts
patch=$1; prop=$2; shift 2
if ! git -C /repo diff --quiet; then echo "REFUSING: /repo has uncommitted changes (commit contracts first)"; exit 3; fi
cd /repo && git apply "$patch" || { echo "APPLY FAILED"; exit 3; }
cd /verif && bin/nriverif check --property $prop "$@" 2>&1 | grep -E "VIOLATION|CHECK-BROKEN|UNDECIDED|^C[0-9]+ \[" | cut -c1-260
cd /repo && git checkout -- . 
