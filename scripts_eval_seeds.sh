#!/bin/bash
# Runs every seeded change in /verif/seeded against the quick check of its property and
# records whether the check reports a violation.  /repo must be clean; each patch is
# applied, checked and reverted (never committed).
export GOFLAGS=-mod=mod GOPROXY=off GOSUMDB=off GOTOOLCHAIN=local NRIVERIF_NOEVIDENCE=1
cd /verif
claimed=$(python3 -c "import json; print(' '.join(p['property_id'] for p in json.load(open('MANIFEST.json'))['checks']))" 2>/dev/null)
for d in seeded/*/; do
  id=$(basename $d); prop=${id:0:3}
  [ -n "$1" ] && [[ "$id" != $1* ]] && continue
  if ! echo " $claimed " | grep -q " $prop "; then echo "$id not-claimed"; echo "not claimed" > $d/result.txt; continue; fi
  if ! git -C /repo diff --quiet; then echo "REFUSING: /repo dirty"; exit 3; fi
  git -C /repo apply /verif/${d}patch.diff || { echo "$id APPLY-FAILED"; continue; }
  out=$(${NRIVERIF:-bin/nriverif} check --property $prop 2>&1); rc=$?
  git -C /repo checkout -- .
  n=$(echo "$out" | grep -c "^VIOLATION")
  first=$(echo "$out" | grep "^VIOLATION" | head -3 | sed 's/.*obligation=//' | cut -c1-160 | tr '\n' ';')
  echo "$id rc=$rc violations=$n $first"
  { echo "rc=$rc violations=$n"; echo "$out" | grep -E "^VIOLATION|CHECK-BROKEN|^C[0-9]+ \[" | cut -c1-400; } > $d/result.txt
done
