#!/bin/bash
# Confirms each sub-agent mutant: patch applies, existing tests pass with it, demo fails with it and passes without it.
export GOFLAGS=-mod=mod GOPROXY=off GOSUMDB=off GOTOOLCHAIN=local
out=/tmp/seed/verify.log; : > $out
for d in /tmp/seed/C*.out/*/; do
  id=$(basename $(dirname $d) .out); v=$(basename $d); wt=/tmp/seed/$id
  [ -f $d/patch.diff ] || continue
  demo_path=$(python3 -c "import json;print(json.load(open('$d/meta.json'))['demo_path_in_repo'])" 2>/dev/null)
  demo_cmd=$(python3 -c "import json;print(json.load(open('$d/meta.json'))['demo_cmd'])" 2>/dev/null)
  demo_src=$(ls $d/demo_test.go $d/demo/main.go 2>/dev/null | head -1)
  cd $wt && git checkout -q -- . && git clean -fdq
  if ! git apply $d/patch.diff 2>/dev/null; then echo "$id/$v APPLY-FAIL" >> $out; continue; fi
  # 1. existing suite with the patch
  ok=1
  (cd $wt && go build ./... >/dev/null 2>&1 && go test -vet=off -count=1 ./pkg/... >/tmp/seed/t.$id.$v.log 2>&1) || ok=0
  (cd $wt/plugins/device-injector && go test -vet=off -count=1 ./... >>/tmp/seed/t.$id.$v.log 2>&1) || ok=0
  (cd $wt/plugins/ulimit-adjuster && go test -vet=off -count=1 ./... >>/tmp/seed/t.$id.$v.log 2>&1) || ok=0
  # 2. demo with the patch must fail
  mkdir -p $(dirname $wt/$demo_path); cp $demo_src $wt/$demo_path
  (cd $wt && timeout 300 bash -c "$demo_cmd" >/tmp/seed/d1.$id.$v.log 2>&1); r1=$?
  # 3. demo without the patch must pass
  git apply -R $d/patch.diff
  (cd $wt && timeout 300 bash -c "$demo_cmd" >/tmp/seed/d2.$id.$v.log 2>&1); r2=$?
  rm -f $wt/$demo_path; git checkout -q -- . ; git clean -fdq
  echo "$id/$v suite_ok=$ok demo_with_patch_exit=$r1 demo_without_patch_exit=$r2" >> $out
done
echo DONE >> $out
