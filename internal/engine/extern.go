package engine

import (
	"go/types"
	"strings"

	"golang.org/x/tools/go/ssa"
)

// externModels are built-in models of library functions (trusted; listed in the
// evidence as assumptions when used).
type externModel func(f *frame, args []Val, c *ssa.CallCommon, pos string) Val

var externModels map[string]externModel
var externModelKeys map[string]func(sc *modScanner, c *ssa.CallCommon)

func init() {
	externModels = map[string]externModel{
		"fmt.Errorf":                 mFreshError,
		"errors.New":                 mFreshError,
		"fmt.Sprintf":                mFreshString("fmt.Sprintf"),
		"fmt.Sprint":                 mFreshString("fmt.Sprint"),
		"strings.HasPrefix":          mStr2Bool(func(a, b string) string { return app("str.prefixof", b, a) }),
		"strings.HasSuffix":          mStr2Bool(func(a, b string) string { return app("str.suffixof", b, a) }),
		"strings.Contains":           mStr2Bool(func(a, b string) string { return app("str.contains", a, b) }),
		"strings.TrimPrefix":         mTrimPrefix,
		"strings.TrimSuffix":         mTrimSuffix,
		"strings.Index":              mStrIndex,
		"strings.SplitN":             mSplitN2,
		"strings.ToUpper":            mUninterpStr("strings.ToUpper"),
		"strings.ToLower":            mUninterpStr("strings.ToLower"),
		"strings.TrimSpace":          mUninterpStr("strings.TrimSpace"),
		"strings.Join":               mJoin,
		"(*sync.Mutex).Lock":         mMutexLock,
		"(*sync.Mutex).Unlock":       mMutexUnlock,
		"(*sync.RWMutex).Lock":       mMutexLock,
		"(*sync.RWMutex).Unlock":     mMutexUnlock,
		"(*sync.RWMutex).RLock":      mRLock,
		"(*sync.RWMutex).RUnlock":    mRUnlock,
		"(*sync.Once).Do":            mOnceDo,
		"errors.Is":                  mErrorsIs,
		"sort.Slice":                 mSortSlice,
		"(time.Duration).Milliseconds": mUninterpInt("time.Duration.Milliseconds"),
		"(time.Duration).Seconds":      mUninterpInt("time.Duration.Seconds"),
		"context.WithTimeout":        mWithTimeout,
		"context.WithCancel":         mWithCancel,
		"context.Background":         mBackground,
		"time.Now":                   mFreshTime,
		"strconv.Itoa":               mItoa,
		"os.Getenv":                  mUninterpStr("os.Getenv"),
		"path/filepath.Join":         mPathJoin,
		"path/filepath.Base":         mUninterpStr("filepath.Base"),
		"path/filepath.Dir":          mUninterpStr("filepath.Dir"),
		"path/filepath.Clean":        mUninterpStr("filepath.Clean"),
		"sigs.k8s.io/yaml.Unmarshal": mYamlUnmarshal,
		"sort.Sort":                  mSortSort,
		"strings.Count":              mStrCount,
	}
	lk := func(sc *modScanner, c *ssa.CallCommon) { sc.lockKeysOf(c) }
	externModelKeys = map[string]func(sc *modScanner, c *ssa.CallCommon){
		"(*sync.Mutex).Lock":      lk,
		"(*sync.Mutex).Unlock":    lk,
		"(*sync.RWMutex).Lock":    lk,
		"(*sync.RWMutex).Unlock":  lk,
		"(*sync.RWMutex).RLock":   lk,
		"(*sync.RWMutex).RUnlock": lk,
		"(*sync.Once).Do":         lk,
	}
}

// lockKeysOf: the ghost lock variables of the lock passed as receiver.
func (sc *modScanner) lockKeysOf(c *ssa.CallCommon) {
	sc.lockTouched = true
	if len(c.Args) == 0 {
		return
	}
	kind, root, path, global, ok := addrRoot(c.Args[0])
	if !ok {
		for k := range sc.x.heap.sorts {
			if len(k) > 7 && k[:7] == "X:lock:" {
				sc.keys[k] = true
			}
		}
		return
	}
	key := typeKey(root) + ":" + path
	if kind == ptrGlobal {
		key = "global:" + global + ":" + path
	}
	for _, kd := range []string{"held", "rheld", "epoch", "done"} {
		k, s := lockKey(kd, key)
		sc.add(k, s)
	}
}

func errorT() types.Type { return types.Universe.Lookup("error").Type() }

func (f *frame) trust(what string) { f.x.vc.Assume["library model (trusted): "+what] = true }

func mFreshError(f *frame, args []Val, c *ssa.CallCommon, pos string) Val {
	x := f.x
	f.trust("fmt.Errorf/errors.New return a fresh non-nil error")
	tag := x.vc.Const("err.tag", "Int")
	val := x.vc.Const("err.val", "Int")
	f.assume(app(">", tag, "0"))
	// the fresh error is a new object
	a := x.heap.alloc(f.st)
	f.assume(Eq(val, a))
	x.heap.set(f.st, allocKey, "Int", app("+", a, "1"))
	it := types.Typ[types.Int]
	return Val{T: errorT(), Fs: []Val{{T: it, S: tag}, {T: it, S: val}}}
}

func mFreshString(name string) externModel {
	return func(f *frame, args []Val, c *ssa.CallCommon, pos string) Val {
		f.trust(name + " returns an unspecified string")
		return Val{T: stringT, S: f.x.vc.Const("str", "String")}
	}
}

func mUninterpStr(name string) externModel {
	return func(f *frame, args []Val, c *ssa.CallCommon, pos string) Val {
		f.trust(name + " is an uninterpreted function of its argument")
		fn := f.x.vc.Fun("fn:"+name, []string{"String"}, "String")
		return Val{T: stringT, S: app(fn, args[0].S)}
	}
}

func mStr2Bool(g func(a, b string) string) externModel {
	return func(f *frame, args []Val, c *ssa.CallCommon, pos string) Val {
		return Val{T: boolT, S: g(args[0].S, args[1].S)}
	}
}

func mTrimPrefix(f *frame, args []Val, c *ssa.CallCommon, pos string) Val {
	s, p := args[0].S, args[1].S
	return Val{T: stringT, S: Ite(app("str.prefixof", p, s), app("str.substr", s, app("str.len", p), app("-", app("str.len", s), app("str.len", p))), s)}
}

func mTrimSuffix(f *frame, args []Val, c *ssa.CallCommon, pos string) Val {
	s, p := args[0].S, args[1].S
	return Val{T: stringT, S: Ite(app("str.suffixof", p, s), app("str.substr", s, "0", app("-", app("str.len", s), app("str.len", p))), s)}
}

// strings.SplitN(s, sep, 2) with a non-empty constant separator: [s] if sep does not occur,
// otherwise [before the first occurrence, after it], in a fresh backing array.
func mSplitN2(f *frame, args []Val, c *ssa.CallCommon, pos string) Val {
	x := f.x
	h := x.heap
	if args[2].S != "2" || !strings.HasPrefix(args[1].S, "\"") || args[1].S == "\"\"" {
		panic(unsupported("strings.SplitN other than SplitN(s, <non-empty constant>, 2)"))
	}
	f.trust("strings.SplitN(s, sep, 2) with a constant non-empty sep is modelled in the SMT string theory: [s] if sep does not occur, else [text before the first occurrence, text after it]")
	s, sep := args[0].S, args[1].S
	i := x.vc.Def("split.i", "Int", app("str.indexof", s, sep, "0"))
	found := app(">=", i, "0")
	base := h.newArray(f.st)
	to := c.Value.Type().(*types.Signature).Results().At(0).Type()
	sl := h.mkSlice(to, base, "0", Ite(found, "2", "1"), "2")
	key := elemKey(sliceElem(to), "")
	sort := h.arrSort(h.arrSort("String"))
	after := app("+", i, app("str.len", sep))
	arr := Store(Store("((as const (Array Int String)) \"\")", "0", Ite(found, app("str.substr", s, "0", i), s)),
		"1", Ite(found, app("str.substr", s, after, app("-", app("str.len", s), after)), "\"\""))
	h.set(f.st, key, sort, Store(h.get(f.st, key, sort), base, arr))
	return sl
}

func mStrIndex(f *frame, args []Val, c *ssa.CallCommon, pos string) Val {
	return Val{T: intT, S: app("str.indexof", args[0].S, args[1].S, "0")}
}

func mJoin(f *frame, args []Val, c *ssa.CallCommon, pos string) Val {
	f.trust("strings.Join returns an unspecified string")
	return Val{T: stringT, S: f.x.vc.Const("joined", "String")}
}

func mItoa(f *frame, args []Val, c *ssa.CallCommon, pos string) Val {
	return Val{T: stringT, S: app("str.from_int", args[0].S)}
}

func mMutexLock(f *frame, args []Val, c *ssa.CallCommon, pos string) Val {
	f.trust("sync.Mutex/RWMutex provide mutual exclusion; Lock on a lock already held by this thread self-deadlocks")
	loc := f.lockLocOf(args[0])
	f.assert("lock.notheld", "lock acquired while already held by the same thread (self-deadlock)", Not(f.lockGet("held", loc)), nil, pos)
	f.lockSet("held", loc, "true")
	f.lockSet("epoch", loc, app("+", f.lockGet("epoch", loc), "1"))
	return Val{T: types.NewTuple()}
}

func mMutexUnlock(f *frame, args []Val, c *ssa.CallCommon, pos string) Val {
	loc := f.lockLocOf(args[0])
	f.assert("lock.held", "unlock of a lock that is not held", f.lockGet("held", loc), nil, pos)
	f.lockSet("held", loc, "false")
	return Val{T: types.NewTuple()}
}

func mRLock(f *frame, args []Val, c *ssa.CallCommon, pos string) Val {
	f.trust("sync.RWMutex: readers exclude the writer")
	loc := f.lockLocOf(args[0])
	f.assume(app(">=", f.lockGet("rheld", loc), "0"))
	f.assert("lock.notheld", "read-lock acquired while write-held by the same thread (self-deadlock)", Not(f.lockGet("held", loc)), nil, pos)
	f.lockSet("rheld", loc, app("+", f.lockGet("rheld", loc), "1"))
	return Val{T: types.NewTuple()}
}

func mRUnlock(f *frame, args []Val, c *ssa.CallCommon, pos string) Val {
	loc := f.lockLocOf(args[0])
	f.assert("lock.rheld", "read-unlock without a read hold", app(">", f.lockGet("rheld", loc), "0"), nil, pos)
	f.lockSet("rheld", loc, app("-", f.lockGet("rheld", loc), "1"))
	return Val{T: types.NewTuple()}
}

func mOnceDo(f *frame, args []Val, c *ssa.CallCommon, pos string) Val {
	x := f.x
	f.trust("sync.Once.Do runs its argument at most once")
	loc := f.lockLocOf(args[0])
	done := f.lockGet("done", loc)
	// run the closure under !done
	cl, ok := x.closures[args[1].S]
	if !ok {
		panic(unsupported("sync.Once.Do with unknown function value"))
	}
	saveCur := f.cur
	saveSt := f.st.clone()
	f.cur = x.vc.Def("once", "Bool", And(f.cur, Not(done)))
	f.lockSet("done", loc, "true")
	f.callFunc(cl.Fn, nil, cl.Bindings, c, pos)
	ran := f.cur
	skipped := x.vc.Def("once", "Bool", And(saveCur, done))
	if f.dead {
		f.dead = false
		f.cur, f.st = skipped, saveSt
		return Val{T: types.NewTuple()}
	}
	f.st = x.mergeStates([]edgeIn{{cond: ran, st: f.st}, {cond: skipped, st: saveSt}})
	f.cur = x.vc.Def("once", "Bool", Or(ran, skipped))
	return Val{T: types.NewTuple()}
}

func mErrorsIs(f *frame, args []Val, c *ssa.CallCommon, pos string) Val {
	x := f.x
	f.trust("errors.Is is an uninterpreted relation with Is(e,e) and !Is(nil,t) for t != nil")
	fn := x.vc.Fun("errors.Is", []string{"Int", "Int", "Int", "Int"}, "Bool")
	e, t := args[0], args[1]
	r := app(fn, e.Fs[0].S, e.Fs[1].S, t.Fs[0].S, t.Fs[1].S)
	f.assume(Implies(And(Eq(e.Fs[0].S, t.Fs[0].S), Eq(e.Fs[1].S, t.Fs[1].S)), r))
	f.assume(Implies(And(Eq(e.Fs[0].S, "0"), Not(Eq(t.Fs[0].S, "0"))), Not(r)))
	return Val{T: boolT, S: r}
}

// context.WithTimeout: the derived context carries a deadline (ghost).
func mWithTimeout(f *frame, args []Val, c *ssa.CallCommon, pos string) Val {
	x := f.x
	f.trust("context.WithTimeout returns a context with a deadline")
	ctx := x.vc.freshVal(args[0].T, "ctx")
	f.assume(app(">", ctx.Fs[0].S, "0"))
	a := x.heap.alloc(f.st)
	f.assume(Eq(ctx.Fs[1].S, a))
	x.heap.set(f.st, allocKey, "Int", app("+", a, "1"))
	k := "X:ctx:deadline"
	x.heap.set(f.st, k, "(Array Int Bool)", Store(x.heap.get(f.st, k, "(Array Int Bool)"), ctx.Fs[1].S, "true"))
	kd := "X:ctx:timeout"
	x.heap.set(f.st, kd, "(Array Int Int)", Store(x.heap.get(f.st, kd, "(Array Int Int)"), ctx.Fs[1].S, args[1].S))
	cancel := x.vc.Const("cancel", "Int")
	f.assume(app(">", cancel, "0"))
	x.closures[cancel] = nil
	return Val{T: c.Signature().Results(), Fs: []Val{ctx, {T: c.Signature().Results().At(1).Type(), S: cancel}}}
}

func mWithCancel(f *frame, args []Val, c *ssa.CallCommon, pos string) Val {
	x := f.x
	ctx := x.vc.freshVal(args[0].T, "ctx")
	f.assume(app(">", ctx.Fs[0].S, "0"))
	a := x.heap.alloc(f.st)
	f.assume(Eq(ctx.Fs[1].S, a))
	x.heap.set(f.st, allocKey, "Int", app("+", a, "1"))
	// inherits the parent's deadline flag
	k := "X:ctx:deadline"
	cur := x.heap.get(f.st, k, "(Array Int Bool)")
	x.heap.set(f.st, k, "(Array Int Bool)", Store(cur, ctx.Fs[1].S, Select(cur, args[0].Fs[1].S)))
	cancel := x.vc.Const("cancel", "Int")
	f.assume(app(">", cancel, "0"))
	x.closures[cancel] = nil
	return Val{T: c.Signature().Results(), Fs: []Val{ctx, {T: c.Signature().Results().At(1).Type(), S: cancel}}}
}

func mBackground(f *frame, args []Val, c *ssa.CallCommon, pos string) Val {
	x := f.x
	ctx := x.vc.freshVal(c.Signature().Results().At(0).Type(), "ctx.bg")
	f.assume(app(">", ctx.Fs[0].S, "0"))
	return ctx
}

func mFreshTime(f *frame, args []Val, c *ssa.CallCommon, pos string) Val {
	return f.x.vc.freshVal(c.Signature().Results().At(0).Type(), "now")
}

// sort.Slice(x, less): afterwards x holds a rearrangement of its former elements such
// that less(j, i) is false for all i < j.  (Trusted model of the library function; the
// comparator closure is the real code, evaluated symbolically.)
func mSortSlice(f *frame, args []Val, c *ssa.CallCommon, pos string) Val {
	x := f.x
	h := x.heap
	vc := x.vc
	f.trust("sort.Slice leaves a rearrangement of the slice's elements ordered by the given less function")
	sl, ok := x.boxes[args[0].Fs[1].S]
	if !ok {
		panic(unsupported("sort.Slice on an unknown slice value"))
	}
	cl, ok := x.closures[args[1].S]
	if !ok || cl == nil {
		panic(unsupported("sort.Slice with an unknown less function"))
	}
	et := sliceElem(sl.T)
	base, off, ln := sl.Fs[0].S, sl.Fs[1].S, sl.Fs[2].S
	// new contents: every new element is one of the old elements
	pi := vc.Fun(vc.fresh("sort.perm"), []string{"Int"}, "Int")
	for _, l := range leaves(et) {
		key := elemKey(et, l.Path)
		es := h.arrSort(vc.sortOf(l.T))
		sort := h.arrSort(es)
		cur := h.get(f.st, key, sort)
		old := Select(cur, base)
		na := vc.Const("sorted", es)
		q := sym(vc.fresh("i"))
		f.assume("(forall ((" + q + " Int)) " + Ite(And(app("<=", off, q), app("<", q, app("+", off, ln))),
			And(Eq(Select(na, q), Select(old, app(pi, q))), app("<=", off, app(pi, q)), app("<", app(pi, q), app("+", off, ln))),
			Eq(Select(na, q), Select(old, q))) + ")")
		h.set(f.st, key, sort, Ite(Eq(base, "0"), cur, Store(cur, base, na)))
	}
	// ordered: forall i < j: !less(j, i), with the comparator evaluated on the new contents
	qi, qj := sym(vc.fresh("si")), sym(vc.fresh("sj"))
	vc.Bound = append(vc.Bound, qi, qj)
	x.qsyms = append(x.qsyms, qi, qj)
	// qi, qj range over absolute positions in the backing array (trigger-friendly)
	lt := x.runClosurePure(f, cl, []Val{{T: intT, S: app("-", qj, off)}, {T: intT, S: app("-", qi, off)}})
	vc.Bound = vc.Bound[:len(vc.Bound)-2]
	x.qsyms = x.qsyms[:len(x.qsyms)-2]
	f.assume("(forall ((" + qi + " Int) (" + qj + " Int)) " + Implies(And(app("<=", off, qi), app("<", qi, qj), app("<", qj, app("+", off, ln))), Not(lt.S)) + ")")
	return Val{T: types.NewTuple()}
}

// runClosurePure evaluates a (loop-free) closure on the current state, discarding side
// effects and the safety obligations generated inside.
func (x *Exec) runClosurePure(f *frame, cl *Closure, args []Val) Val {
	if !inlinable(cl.Fn) || len(cl.Fn.Blocks) == 0 {
		panic(unsupported("closure cannot be evaluated symbolically: " + cl.Fn.String()))
	}
	saveObls := x.vc.Obls
	saveNames := x.oblNames
	x.oblNames = map[string]int{}
	saveAbs := x.abstracted
	r := x.run(cl.Fn, args, cl.Bindings, f.st.clone(), "true", x.opts.InlineDepth-2, false)
	x.vc.Obls = saveObls
	x.oblNames = saveNames
	x.abstracted = saveAbs
	if r.noRet {
		panic(unsupported("closure does not return"))
	}
	return r.val
}

func mUninterpInt(name string) externModel {
	return func(f *frame, args []Val, c *ssa.CallCommon, pos string) Val {
		f.trust(name + " is a pure (uninterpreted) function of its argument")
		fn := f.x.vc.Fun("fn:"+name, []string{"Int"}, f.x.vc.sortOf(c.Signature().Results().At(0).Type()))
		return Val{T: c.Signature().Results().At(0).Type(), S: app(fn, args[0].S)}
	}
}

// bytesOfKey: ghost map from a backing array to the string it was converted from
// ([]byte(s)); read in specifications with strof(b).
const bytesOfKey = "X:bytesof"

// yaml.Unmarshal(data, &out): the decoder is an unknown deterministic library; the model
// overwrites *out with an arbitrary well-formed value whose memory is fresh, returns an
// arbitrary error, and logs the call as class "yaml.Unmarshal:<type of out>" with
// argument 0 = the string the data was converted from and results (error, value stored).
func mYamlUnmarshal(f *frame, args []Val, c *ssa.CallCommon, pos string) Val {
	x := f.x
	h := x.heap
	mi, ok := c.Args[1].(*ssa.MakeInterface)
	if !ok {
		panic(unsupported("yaml.Unmarshal: target is not a pointer converted in place"))
	}
	pt, ok := under(mi.X.Type()).(*types.Pointer)
	if !ok {
		panic(unsupported("yaml.Unmarshal: target is not a pointer"))
	}
	f.trust("yaml.Unmarshal stores an arbitrary well-formed value in freshly allocated memory into its target and touches nothing else")
	ptr := x.fixPtr(f.val(mi.X))
	oldA := h.alloc(f.st)
	na := x.vc.Const("alloc.call", "Int")
	f.assume(app(">=", na, oldA))
	f.st.heap[allocKey] = na
	nv := x.fixPtrs(x.vc.freshVal(pt.Elem(), "yaml.out"))
	f.assume(h.valAssume(f.st, nv))
	if _, isSlice := under(pt.Elem()).(*types.Slice); isSlice {
		b := nv.Fs[0].S
		f.assume(Or(Eq(b, "0"), app(">=", b, oldA)))
	}
	f.storeAt(ptr, nv)
	// ghost snapshot of a decoded slice: a second array with the same contents that no code
	// can reach, so that specifications can speak about the decoded values after the program
	// has normalised them in place (result slot 2)
	shadow := nv
	if st, isSlice := under(pt.Elem()).(*types.Slice); isSlice {
		b2 := x.vc.Const("yaml.shadow", "Int")
		f.assume(And(app(">=", b2, oldA), app("<", b2, na), Not(Eq(b2, nv.Fs[0].S))))
		shadow = Val{T: nv.T, Fs: []Val{{T: nv.Fs[0].T, S: b2, P: nv.Fs[0].P}, nv.Fs[1], nv.Fs[2], nv.Fs[3]}}
		for _, l := range leaves(st.Elem()) {
			k, srt := h.cellKeySort(&Ptr{Kind: ptrElem, Root: st.Elem()}, l.Path, l.T)
			arr := h.get(f.st, k, srt)
			f.assume(Eq(Select(arr, b2), Select(arr, nv.Fs[0].S)))
		}
	}
	err := x.fixPtrs(x.vc.freshVal(errorT(), "yaml.err"))
	f.assume(h.valAssume(f.st, err))
	src := Select(h.get(f.st, bytesOfKey, "(Array Int String)"), args[0].Fs[0].S)
	cls := "yaml.Unmarshal:" + types.TypeString(pt.Elem(), func(p *types.Package) string { return p.Name() })
	res := Val{T: types.NewTuple(types.NewVar(0, nil, "err", errorT()), types.NewVar(0, nil, "out", pt.Elem()), types.NewVar(0, nil, "snapshot", pt.Elem())), Fs: []Val{err, nv, shadow}}
	x.ghostLogCall(f.st, cls, []Val{{T: stringT, S: src}}, res)
	return err
}

func mStrCount(f *frame, args []Val, c *ssa.CallCommon, pos string) Val {
	f.trust("strings.Count is a pure (uninterpreted) function of its arguments, non-negative")
	fn := f.x.vc.Fun("fn:strings.Count", []string{"String", "String"}, "Int")
	t := app(fn, args[0].S, args[1].S)
	f.assume(app(">=", t, "0"))
	return Val{T: intT, S: t}
}

// sort.Sort(x) where x is a slice type with Len/Less/Swap methods defined in the repository:
// afterwards the slice holds a rearrangement of its elements and no element is Less than an
// earlier one; Less is the real method, evaluated symbolically on the new contents.
func mSortSort(f *frame, args []Val, c *ssa.CallCommon, pos string) Val {
	x := f.x
	h := x.heap
	vc := x.vc
	sl, ok := x.boxes[args[0].Fs[1].S]
	if !ok {
		panic(unsupported("sort.Sort on an unknown value"))
	}
	if _, isSlice := under(sl.T).(*types.Slice); !isSlice {
		panic(unsupported("sort.Sort on a non-slice type " + sl.T.String()))
	}
	mset := x.prog.SSA.MethodSets.MethodSet(sl.T)
	sel := mset.Lookup(nil, "Less")
	if sel == nil {
		for i := 0; i < mset.Len(); i++ {
			if mset.At(i).Obj().Name() == "Less" {
				sel = mset.At(i)
			}
		}
	}
	if sel == nil {
		panic(unsupported("sort.Sort: no Less method on " + sl.T.String()))
	}
	less := x.prog.SSA.MethodValue(sel)
	if less == nil || len(less.Blocks) == 0 || !x.prog.isRepoFunc(less) {
		panic(unsupported("sort.Sort: Less of " + sl.T.String() + " is not a repository function"))
	}
	f.trust("sort.Sort leaves a rearrangement of the slice's elements in which no element is Less than an earlier one")
	et := sliceElem(sl.T)
	base, off, ln := sl.Fs[0].S, sl.Fs[1].S, sl.Fs[2].S
	pi := vc.Fun(vc.fresh("sort.perm"), []string{"Int"}, "Int")
	for _, l := range leaves(et) {
		key := elemKey(et, l.Path)
		es := h.arrSort(vc.sortOf(l.T))
		sort := h.arrSort(es)
		cur := h.get(f.st, key, sort)
		old := Select(cur, base)
		na := vc.Const("sorted", es)
		q := sym(vc.fresh("i"))
		f.assume("(forall ((" + q + " Int)) " + Ite(And(app("<=", off, q), app("<", q, app("+", off, ln))),
			And(Eq(Select(na, q), Select(old, app(pi, q))), app("<=", off, app(pi, q)), app("<", app(pi, q), app("+", off, ln))),
			Eq(Select(na, q), Select(old, q))) + ")")
		h.set(f.st, key, sort, Ite(Eq(base, "0"), cur, Store(cur, base, na)))
	}
	qi, qj := sym(vc.fresh("si")), sym(vc.fresh("sj"))
	vc.Bound = append(vc.Bound, qi, qj)
	x.qsyms = append(x.qsyms, qi, qj)
	lt := x.runClosurePure(f, &Closure{Fn: less}, []Val{sl, {T: intT, S: app("-", qj, off)}, {T: intT, S: app("-", qi, off)}})
	vc.Bound = vc.Bound[:len(vc.Bound)-2]
	x.qsyms = x.qsyms[:len(x.qsyms)-2]
	f.assume("(forall ((" + qi + " Int) (" + qj + " Int)) " + Implies(And(app("<=", off, qi), app("<", qi, qj), app("<", qj, app("+", off, ln))), Not(lt.S)) + ")")
	return Val{T: types.NewTuple()}
}

// filepath.Join: an uninterpreted function of the number of elements and of the first three
// elements (every call in the repository has at most three); pathjoin2/pathjoin3 in specifications.
func mPathJoin(f *frame, args []Val, c *ssa.CallCommon, pos string) Val {
	x := f.x
	h := x.heap
	f.trust("filepath.Join is an uninterpreted function of its (at most three) elements")
	sl := args[0]
	key := elemKey(stringT, "")
	sort := h.arrSort(h.arrSort("String"))
	arr := Select(h.get(f.st, key, sort), sl.Fs[0].S)
	el := func(i int) string {
		return Ite(app("<", IntLit(int64(i)), sl.Fs[2].S), Select(arr, app("+", sl.Fs[1].S, IntLit(int64(i)))), StrLit(""))
	}
	f.safety("model", "filepath.Join called with more than three elements (outside the model)", app("<=", sl.Fs[2].S, "3"), pos)
	fn := x.vc.Fun("fn:filepath.Join", []string{"Int", "String", "String", "String"}, "String")
	return Val{T: stringT, S: app(fn, sl.Fs[2].S, el(0), el(1), el(2))}
}
