package engine

import (
	"os"
	"fmt"
	"go/ast"
	"go/types"
	"sort"
	"strings"

	"golang.org/x/tools/go/ssa"
)

// Exec verifies one function against its contract.
type Exec struct {
	prog  *Program
	vc    *VC
	heap  *Heap
	top   *Contract
	entry *State
	// per-unit bookkeeping
	callOrd    map[string]int
	oblNames   map[string]int
	abstracted bool
	boxes      map[string]Val
	closures   map[string]*Closure
	modTargets []modTarget // resolved modifies clauses of the top contract
	bounded    bool
	unrollMax  int
	// parameters of the top-level function, by name (for specs)
	topVars   map[string]Val
	opts      Options
	pureDepth int
	slotTypes map[string]types.Type
	// type-invariant facts about values loaded while evaluating spec expressions
	// (slice lengths are non-negative, references are allocated, ...); flushed into
	// the path condition by the next assert/assume
	localMode bool // the contract has keep clauses: joins are cut points, postconditions are checked per return
	exitCheck func(f *frame, val Val, tag string)
	entrySt   *State
	retConds  []string
	retCount  int
	callBlock map[string]*ssa.BasicBlock // "callee#ordinal" -> block containing the call (for keep before/after)
	writeSets map[*ssa.Function]map[string]bool
	pureMemo  map[string]Val
	notedFacts map[string]bool
	group     string            // current obligation group (see Obligation.Group)
	groupN    int
	alias     map[string]string // recorded name -> name now at the same position (renamed variables)
	pending   []string
	qpending  []string // type facts of loads that mention quantified variables (closed by evalQuant)
	qsyms     []string // symbols of quantifier variables currently in scope
}

type Options struct {
	InlineDepth int
	Unroll      int
	Thorough    bool
	GuardedMerge bool // merge array heap variables through guarded equalities instead of ite terms
	// RelaxFrame: heap keys for which loops neither assume nor check their modifies clause
	// (the arrays are simply havocked).  Used for a second pass when a changed function
	// writes a new kind of location in a loop: the proof must then hold without relying on
	// the frame for it.
	RelaxFrame map[string]bool
}

type Closure struct {
	Fn       *ssa.Function
	Bindings []Val
}

type modTarget struct {
	keys   []string // heap keys
	sorts  []string
	target string // ref term ("" = whole variable)
	subkey string // mapkey(m,k): only the entry for this key of map `target` may change ("" = whole cell)
	prefix string // calls(cls): every ghost-log variable of the class (declared lazily) is covered
	text   string
}

type edgeIn struct {
	from *ssa.BasicBlock
	cond string
	st   *State
	ctl  string // path condition without the keep clauses assumed at cut points
	br   string // branch decisions taken since the last cut point (no assumptions)
}

type retInfo struct {
	cond string
	br   string // branch decisions since the body was entered
	st   *State
	val  Val
}

type loopInfo struct {
	header   *ssa.BasicBlock
	body     map[*ssa.BasicBlock]bool
	backs    []*ssa.BasicBlock
	ordinal  int
	spec     *LoopSpec
	pre      *State // state at loop entry (before havoc)
	hdr      *State // state right after havoc+assume (for decreases)
	hdrRegs  map[ssa.Value]Val
	modKeys  map[string]bool
	iter     *ssa.Range // map-range iterator advanced in this loop (if any)
	measure0 []string
	entryVals map[string]Val // loop-carried locals (header phis by name) at loop entry
	modT     []modTarget // resolved `loop N modifies` clause (targets evaluated at loop entry)
	hasModT  bool
}

type frame struct {
	x        *Exec
	fn       *ssa.Function
	regs     map[ssa.Value]Val
	depth    int
	top      bool
	in       map[*ssa.BasicBlock][]edgeIn
	rets     []retInfo
	loops    map[*ssa.BasicBlock]*loopInfo
	backEdge map[[2]*ssa.BasicBlock]bool
	defers   []*deferSite
	freeVars []Val
	names    map[string][]*ssa.DebugRef
	curBlock *ssa.BasicBlock
	cur      string // current path condition
	st       *State
	dead     bool
	unrollOf map[*ssa.BasicBlock]int
	pcOut    map[*ssa.BasicBlock]string // path condition at the end of each executed block
	stOut    map[*ssa.BasicBlock]*State // state at the end of each executed block (local mode)
	ctl      string                     // like cur, but without keep clauses assumed at cut points
	ctlOut   map[*ssa.BasicBlock]string
	noCtl    bool
	edgeCtl  string
	br       string // branch decisions since the last cut point
	edgeBr   string
	inBlock  bool // executing instructions of curBlock (call-site name lookups may use same-block references)
}

type deferSite struct {
	instr *ssa.Defer
	flag  string // heap key of the "registered" flag
	args  []Val
	fnVal Val
}

func (x *Exec) oblName(kind string) string {
	x.oblNames[kind]++
	n := x.oblNames[kind]
	if n == 1 {
		return x.vc.Unit + "#" + kind
	}
	return fmt.Sprintf("%s#%s~%d", x.vc.Unit, kind, n)
}

// assert adds an obligation and then assumes the goal (Boogie style).
func (f *frame) flush() {
	x := f.x
	if len(x.pending) > 0 {
		p := x.pending
		x.pending = nil
		f.cur = x.vc.Def("pc", "Bool", And(append([]string{f.cur}, p...)...))
		if !f.noCtl && f.top && x.localMode {
			f.ctl = x.vc.Def("ctl", "Bool", And(append([]string{f.ctl}, p...)...))
		}
	}
}

func (x *Exec) addPending(a string) {
	if x.notedFacts == nil {
		x.notedFacts = map[string]bool{}
	}
	if x.notedFacts[a] {
		return
	}
	x.notedFacts[a] = true
	x.pending = append(x.pending, a)
}

func (x *Exec) takePending() string {
	p := x.pending
	x.pending = nil
	return And(p...)
}

// NoQuantTypeFacts switches the quantified type facts off (debugging).
var NoQuantTypeFacts = os.Getenv("NRIVERIF_NOQTF") == "1"

// noteLoaded records the type invariants of a value loaded from state st by a spec expression.
func (x *Exec) noteLoaded(st *State, v Val) { x.noteLoadedFrom(st, v, "") }

// noteLoadedFrom: owner is the reference the value was loaded through ("" if unknown).  A
// load that depends on quantified variables yields a fact that is closed by the enclosing
// quantifier (see evalQuant); such facts are guarded by the owner being allocated, because
// cells of objects not allocated yet hold the values a later allocation will give them.
func (x *Exec) noteLoadedFrom(st *State, v Val, owner string) {
	a := x.heap.valAssume(st, v)
	if a == "true" {
		return
	}
	for _, q := range x.qsyms {
		if strings.Contains(a, q) || strings.Contains(owner, q) {
			if owner == "" || NoQuantTypeFacts {
				return
			}
			g := And(app("<", "0", owner), app("<", owner, x.heap.alloc(st)))
			x.qpending = append(x.qpending, Implies(g, a))
			return
		}
	}
	if x.notedFacts == nil {
		x.notedFacts = map[string]bool{}
	}
	if x.notedFacts[a] {
		return
	}
	x.notedFacts[a] = true
	x.pending = append(x.pending, a)
}

func (f *frame) assert(kind, desc, goal string, cl *Clause, pos string) {
	if f.dead {
		return
	}
	f.flush()
	x := f.x
	o := &Obligation{Name: x.oblName(kind), Kind: strings.SplitN(kind, ".", 2)[0], Desc: desc, Hyp: f.cur, Goal: goal, Pos: pos, Abstr: x.abstracted, Bounded: x.bounded}
	if x.top != nil {
		o.Props = x.top.Props
	}
	if cl != nil {
		o.KF = cl.KF
		if len(cl.Props) > 0 {
			o.Props = cl.Props
		}
	}
	if o.KF == "" && !o.Bounded {
		o.Group = x.group
	}
	x.vc.AddObl(o)
	if o.KF == "" {
		f.assume(goal)
	}
}

func (f *frame) assume(t string) {
	f.flush()
	if t == "true" {
		return
	}
	f.cur = f.x.vc.Def("pc", "Bool", And(f.cur, t))
	if !f.noCtl && f.top && f.x.localMode {
		f.ctl = f.x.vc.Def("ctl", "Bool", And(f.ctl, t))
	}
}

func (f *frame) safety(kind, desc, goal string, pos string) {
	if goal == "true" {
		return
	}
	f.assert("safety."+kind, desc, goal, nil, pos)
}

// ---- running a function body ----

type runResult struct {
	val   Val
	st    *State
	cond  string
	noRet bool
}

func (x *Exec) run(fn *ssa.Function, args []Val, free []Val, st *State, cond string, depth int, top bool) runResult {
	if len(fn.Blocks) == 0 {
		panic(unsupported("function without body: " + fn.String()))
	}
	f := &frame{x: x, fn: fn, regs: map[ssa.Value]Val{}, depth: depth, top: top, in: map[*ssa.BasicBlock][]edgeIn{},
		loops: map[*ssa.BasicBlock]*loopInfo{}, backEdge: map[[2]*ssa.BasicBlock]bool{}, freeVars: free, unrollOf: map[*ssa.BasicBlock]int{}, pcOut: map[*ssa.BasicBlock]string{}, stOut: map[*ssa.BasicBlock]*State{}, ctlOut: map[*ssa.BasicBlock]string{}}
	for i, p := range fn.Params {
		f.regs[p] = args[i]
	}
	for i, fv := range fn.FreeVars {
		if i < len(free) {
			f.regs[fv] = free[i]
		}
	}
	f.findLoops()
	if top {
		f.collectNames()
	}
	order := f.blockOrder()
	f.in[fn.Blocks[0]] = []edgeIn{{from: nil, cond: cond, st: st, ctl: cond, br: "true"}}
	for _, b := range order {
		f.execBlock(b)
	}
	// merge returns
	if len(f.rets) == 0 {
		return runResult{noRet: true, st: st, cond: "false"}
	}
	return f.mergeReturns()
}

func (f *frame) mergeReturns() runResult {
	x := f.x
	var conds []string
	for _, r := range f.rets {
		conds = append(conds, r.cond)
	}
	cond := x.vc.Def("ret", "Bool", Or(conds...))
	var edges []edgeIn
	for _, r := range f.rets {
		g := r.cond
		if !f.top && r.br != "" {
			g = r.br
		}
		edges = append(edges, edgeIn{cond: g, st: r.st})
	}
	st := x.mergeStates(edges)
	val := f.rets[len(f.rets)-1].val
	for i := len(f.rets) - 2; i >= 0; i-- {
		val = x.vc.iteVal(edges[i].cond, f.rets[i].val, val)
	}
	val = x.nameVal("rv", val)
	return runResult{val: val, st: st, cond: cond}
}

// nameVal introduces definitions for the leaves of v to keep terms small.
func (x *Exec) nameVal(prefix string, v Val) Val {
	if len(v.Fs) > 0 {
		out := Val{T: v.T, Fs: make([]Val, len(v.Fs)), P: v.P}
		for i := range v.Fs {
			out.Fs[i] = x.nameVal(prefix, v.Fs[i])
		}
		return out
	}
	if v.T == nil || v.S == "" {
		return v
	}
	out := v
	out.S = x.vc.Def(prefix, x.vc.sortOf(v.T), v.S)
	if v.P != nil && v.P.Idx != "" {
		p := *v.P
		p.Idx = x.vc.Def(prefix+".i", "Int", v.P.Idx)
		out.P = &p
	}
	return out
}

func (x *Exec) mergeStates(edges []edgeIn) *State {
	if len(edges) == 1 {
		return edges[0].st.clone()
	}
	keys := map[string]bool{}
	for _, e := range edges {
		for k := range e.st.heap {
			keys[k] = true
		}
	}
	out := newState()
	for _, k := range sortedKeys(keys) {
		sort := x.heap.sorts[k]
		terms := make([]string, len(edges))
		same := true
		for i, e := range edges {
			terms[i] = x.heap.get(e.st, k, sort)
			if terms[i] != terms[0] {
				same = false
			}
		}
		if same {
			out.heap[k] = terms[0]
			continue
		}
		if !strings.HasPrefix(sort, "(Array") || !x.opts.GuardedMerge {
			t := terms[len(terms)-1]
			for i := len(terms) - 2; i >= 0; i-- {
				t = Ite(edges[i].cond, terms[i], t)
			}
			out.heap[k] = x.vc.Def("m."+k, sort, t)
			continue
		}
		// array-sorted heap variables are merged through a fresh constant with guarded
		// equalities (path conditions are mutually exclusive), not through ite terms:
		// ite over store chains makes the solvers' preprocessing explode
		c := x.vc.Const("m."+k, sort)
		for i := range terms {
			x.vc.FactFor(c, Implies(edges[i].cond, Eq(c, terms[i])))
		}
		out.heap[k] = c
	}
	return out
}

// findLoops computes natural loops.
func (f *frame) findLoops() {
	fn := f.fn
	for _, b := range fn.Blocks {
		for _, s := range b.Succs {
			if s.Dominates(b) {
				f.backEdge[[2]*ssa.BasicBlock{b, s}] = true
				li := f.loops[s]
				if li == nil {
					li = &loopInfo{header: s, body: map[*ssa.BasicBlock]bool{s: true}}
					f.loops[s] = li
				}
				li.backs = append(li.backs, b)
				// natural loop: nodes reaching b without passing s
				stack := []*ssa.BasicBlock{b}
				for len(stack) > 0 {
					n := stack[len(stack)-1]
					stack = stack[:len(stack)-1]
					if li.body[n] {
						continue
					}
					li.body[n] = true
					stack = append(stack, n.Preds...)
				}
			}
		}
	}
	// ordinals in source order of header position (block index is source order for go/ssa)
	var hs []*ssa.BasicBlock
	for h := range f.loops {
		hs = append(hs, h)
	}
	sort.Slice(hs, func(i, j int) bool { return hs[i].Index < hs[j].Index })
	c := f.x.prog.Contracts[f.fn]
	for i, h := range hs {
		li := f.loops[h]
		li.ordinal = i + 1
		if c != nil && f.top {
			li.spec = c.Loops[i+1]
		}
	}
}

// blockOrder: reverse postorder ignoring back edges.
func (f *frame) blockOrder() []*ssa.BasicBlock {
	seen := map[*ssa.BasicBlock]bool{}
	var post []*ssa.BasicBlock
	var dfs func(b *ssa.BasicBlock)
	dfs = func(b *ssa.BasicBlock) {
		seen[b] = true
		for i := len(b.Succs) - 1; i >= 0; i-- {
			s := b.Succs[i]
			if f.backEdge[[2]*ssa.BasicBlock{b, s}] || seen[s] {
				continue
			}
			dfs(s)
		}
		post = append(post, b)
	}
	dfs(f.fn.Blocks[0])
	for i, j := 0, len(post)-1; i < j; i, j = i+1, j-1 {
		post[i], post[j] = post[j], post[i]
	}
	return post
}

func (f *frame) collectNames() {
	f.names = map[string][]*ssa.DebugRef{}
	for _, b := range f.fn.Blocks {
		for _, in := range b.Instrs {
			if d, ok := in.(*ssa.DebugRef); ok {
				if id, ok := d.Expr.(*ast.Ident); ok {
					f.names[id.Name] = append(f.names[id.Name], d)
				}
			}
		}
	}
}

// ---- block execution ----

func (f *frame) execBlock(b *ssa.BasicBlock) {
	x := f.x
	edges := f.in[b]
	if len(edges) == 0 {
		return // unreachable
	}
	var conds []string
	for _, e := range edges {
		conds = append(conds, e.cond)
	}
	reach := Or(conds...)
	if len(edges) > 1 {
		// every path to a join passes through its immediate dominator: conjoin the path
		// condition recorded there, so that the common history is asserted as unit facts
		// instead of being hidden under one disjunction per earlier join
		if d := b.Idom(); d != nil {
			if pc, ok := f.pcOut[d]; ok {
				reach = And(pc, reach)
			}
		}
	}
	f.cur = x.vc.Def(fmt.Sprintf("R.%s.b%d", f.fn.Name(), b.Index), "Bool", reach)
	if f.top {
		// non-vacuity: the block after a loop must be reachable under the loop's invariants (an
		// invariant that contradicts the exit condition would make everything after the loop
		// trivially provable)
		for _, li := range f.loops {
			if li.body[b] {
				continue
			}
			for _, p := range b.Preds {
				// (only the regular exit from the loop header: an early return out of the body may
				// be genuinely dead code, e.g. the error branch of a call that cannot fail here)
				if p == li.header {
					x.vc.AddObl(&Obligation{Name: x.oblName(fmt.Sprintf("cover.loop%d.exit.b%d", li.ordinal, b.Index)), Kind: "cover",
						Desc: "the code after the loop is reachable under the loop invariants (non-vacuity)", Hyp: "true", Goal: f.cur, Cover: true, Props: x.top.Props})
					break
				}
			}
		}
	}
	if f.top && x.localMode {
		var cc []string
		for _, e := range edges {
			cc = append(cc, e.ctl)
		}
		c := Or(cc...)
		if len(edges) > 1 {
			if d := b.Idom(); d != nil {
				if pc, ok := f.ctlOut[d]; ok {
					c = And(pc, c)
				}
			}
		}
		f.ctl = x.vc.Def("ctl", "Bool", c)
	}
	{
		var bb []string
		for _, e := range edges {
			bb = append(bb, e.br)
		}
		f.br = x.vc.Def("br", "Bool", Or(bb...))
	}
	// inlined bodies (loop-free) merge values and states under the branch decisions taken
	// since the body was entered, not under absolute path conditions: the merged terms then
	// do not drag the caller's whole history into every later query that mentions them
	guards := edges
	if !f.top {
		guards = make([]edgeIn, len(edges))
		copy(guards, edges)
		for i := range guards {
			guards[i].cond = guards[i].br
		}
	}
	f.st = x.mergeStates(guards)
	f.curBlock = b
	f.dead = false

	li := f.loops[b]
	// phis
	phiVals := map[*ssa.Phi]Val{}
	for _, in := range b.Instrs {
		phi, ok := in.(*ssa.Phi)
		if !ok {
			break
		}
		var v Val
		first := true
		for i := len(guards) - 1; i >= 0; i-- {
			e := guards[i]
			ev := f.phiOperand(phi, e.from)
			if first {
				v = ev
				first = false
			} else {
				v = x.vc.iteVal(e.cond, ev, v)
			}
		}
		phiVals[phi] = x.nameVal("phi."+phi.Name(), v)
	}
	for p, v := range phiVals {
		f.regs[p] = v
	}
	if li != nil {
		f.loopHeader(li, phiVals)
	} else if f.top && len(edges) > 1 && x.localMode && !f.simpleJoin(b) {
		f.keepAt(fmt.Sprintf("b%d", b.Index), x.prog.pos(firstPos(b)), b)
		f.cutJoin(b, phiVals)
	}
	f.inBlock = true
	defer func() { f.inBlock = false }()
	for _, in := range b.Instrs {
		if _, ok := in.(*ssa.Phi); ok {
			continue
		}
		if f.dead {
			return
		}
		switch in.(type) {
		case *ssa.If, *ssa.Jump:
			f.pcOut[b] = f.cur
			if f.top && x.localMode {
				f.stOut[b] = f.st.clone()
				f.ctlOut[b] = f.ctl
			}
		}
		f.execInstr(in)
	}
}

func (f *frame) phiOperand(phi *ssa.Phi, from *ssa.BasicBlock) Val {
	for i, p := range phi.Block().Preds {
		if p == from {
			return f.val(phi.Edges[i])
		}
	}
	panic("phi: no such predecessor")
}

func (f *frame) pushEdge(to *ssa.BasicBlock, cond string) {
	from := f.curBlock
	if f.backEdge[[2]*ssa.BasicBlock{from, to}] {
		f.loopBackEdge(f.loops[to], from, cond)
		return
	}
	f.in[to] = append(f.in[to], edgeIn{from: from, cond: cond, st: f.st, ctl: f.edgeCtl, br: f.edgeBr})
}

// keepAt asserts and then assumes the contract's `keep` clauses (join invariants) at a
// control-flow join.  They summarise what every path so far has preserved, so that
// later obligations need not re-derive it through exponentially many path combinations.
func (f *frame) keepAt(where, pos string, at *ssa.BasicBlock) {
	x := f.x
	if x.top == nil || len(x.top.Keeps) == 0 {
		return
	}
	x.groupN++
	x.group = fmt.Sprintf("keep.%s.%d", where, x.groupN)
	defer func() { x.group = "" }()
	env := x.baseEnv(f.st)
	if at != nil && f.names != nil {
		st := f.st
		env.lookup = func(name string) (Val, bool) { return f.lookupName(name, at, st) }
		f.currentParams(env)
	}
	for i := range x.top.Keeps {
		c := x.top.Keeps[i]
		if !f.keepActive(&c, at) {
			continue
		}
		parts := SplitConj(c.Expr)
		for j, pe := range parts {
			pc := c
			pc.Expr = pe
			name := fmt.Sprintf("keep.%s.%s", where, clauseName(&c, i))
			if len(parts) > 1 {
				name = fmt.Sprintf("%s.%d", name, j+1)
				pc.Text = SpecString(pe)
			}
			t := x.evalClause(env, &pc)
			f.assert(name, "join invariant holds: "+pc.Text, t, &pc, pos)
		}
	}
	all := map[string]bool{}
	for k := range f.st.heap {
		all[k] = true
	}
	for _, k := range sortedKeys(all) {
		one := map[string]bool{k: true}
		if af := x.autoFrame(f.st, one); af != "true" {
			f.assert(fmt.Sprintf("keep.%s.frame.%s", where, k), "writes so far stay within the function's modifies clause: "+k, af, nil, pos)
		}
	}
}

// keepActive: `keep after X#n e` is a join invariant at the joins that can only be
// reached after call X#n has been passed (or skipped), `keep before X#n e` at all
// others; neither is active at the head of a loop that contains the call.
func (f *frame) keepActive(c *Clause, at *ssa.BasicBlock) bool {
	x := f.x
	key := c.After
	if key == "" {
		key = c.Before
	}
	if key == "" {
		return true
	}
	cb, ok := x.callBlock[key]
	if !ok {
		return c.Before != ""
	}
	if li := f.loops[at]; li != nil && li.body[cb] {
		return false
	}
	r := f.reaches(cb, at)
	if c.After != "" {
		return r
	}
	return !r
}

// reaches: is there a (non-empty) path from a to b in the control-flow graph?
func (f *frame) reaches(a, b *ssa.BasicBlock) bool {
	if a == b {
		return false
	}
	seen := map[*ssa.BasicBlock]bool{}
	var dfs func(n *ssa.BasicBlock) bool
	dfs = func(n *ssa.BasicBlock) bool {
		if n == b {
			return true
		}
		if seen[n] {
			return false
		}
		seen[n] = true
		for _, s := range n.Succs {
			if dfs(s) {
				return true
			}
		}
		return false
	}
	return dfs(a)
}

// simpleJoin: the branches that meet at b (everything between b's immediate dominator
// and b) contain no calls, no loops and no nested joins.  Such a diamond is merged the
// ordinary way instead of being cut: nothing is forgotten, and it adds almost no history.
func (f *frame) simpleJoin(b *ssa.BasicBlock) bool {
	d := b.Idom()
	if d == nil {
		return false
	}
	// a join that only returns: nothing follows that a cut could make cheaper, and the
	// postconditions need what the last branches did
	if _, ok := b.Instrs[len(b.Instrs)-1].(*ssa.Return); ok {
		plain := true
		for _, in := range b.Instrs {
			switch in.(type) {
			case *ssa.Call, *ssa.Go, *ssa.Defer, *ssa.RunDefers, *ssa.Select, *ssa.Send:
				plain = false
			}
		}
		if plain {
			return true
		}
	}
	seen := map[*ssa.BasicBlock]bool{}
	var stack []*ssa.BasicBlock
	for _, p := range b.Preds {
		if p != d {
			stack = append(stack, p)
		}
	}
	for len(stack) > 0 {
		n := stack[len(stack)-1]
		stack = stack[:len(stack)-1]
		if seen[n] {
			continue
		}
		seen[n] = true
		if f.loops[n] != nil || len(n.Preds) != 1 || len(seen) > 4 {
			return false
		}
		for _, in := range n.Instrs {
			switch in.(type) {
			case *ssa.Call, *ssa.Go, *ssa.Defer, *ssa.RunDefers, *ssa.Select, *ssa.Send, *ssa.Panic, *ssa.Return:
				return false
			}
		}
		for _, p := range n.Preds {
			if p != d {
				stack = append(stack, p)
			}
		}
	}
	return true
}

// cutJoin turns a join into a cut point (local mode): everything the branches may have
// changed is forgotten and only the keep clauses (just proved) and the function-level
// frame are known afterwards.  Later obligations then depend on the straight-line
// history and the keeps, not on the internals of every earlier branch.
func (f *frame) cutJoin(b *ssa.BasicBlock, phiVals map[*ssa.Phi]Val) {
	x := f.x
	d := b.Idom()
	base, ok := f.stOut[d]
	pc, ok2 := f.ctlOut[d]
	if !ok || !ok2 {
		return
	}
	f.ctl = pc
	baseAlloc := x.heap.alloc(base)
	for _, k := range sortedKeys(f.st.heap) {
		t := f.st.heap[k]
		if bt, ok := base.heap[k]; ok && bt == t {
			continue
		}
		if _, ok := base.heap[k]; !ok && t == x.heap.initial(k) {
			continue
		}
		if k == allocKey {
			continue
		}
		f.st.heap[k] = x.vc.Const("cut."+k, x.heap.sorts[k])
	}
	na := x.vc.Const("alloc.cut", "Int")
	f.st.heap[allocKey] = na
	// which of the incoming branches was taken (their conditions, not their internals) stays known
	f.cur = x.vc.Def("cut", "Bool", And(pc, f.br, app(">=", na, baseAlloc)))
	f.ctl = f.cur
	f.br = "true"
	for _, k := range sortedKeys(f.st.heap) {
		if nf := x.heap.nilFacts(k, f.st.heap[k]); nf != "true" && strings.HasPrefix(f.st.heap[k], "|cut.") {
			f.assume(nf)
		}
	}
	for p, v := range phiVals {
		same := true
		for _, e := range p.Edges {
			if f.val(e).S != f.val(p.Edges[0]).S || len(v.Fs) > 0 {
				same = false
			}
		}
		if same {
			continue
		}
		nv := x.fixPtrs(x.vc.freshVal(p.Type(), "cutv."+p.Name()))
		f.regs[p] = nv
		f.assume(x.heap.valAssume(f.st, nv))
	}
	// the keep clauses are assumed for the current path condition only: they are not
	// carried into later cut points (there they are re-established on the then-current state)
	f.noCtl = true
	env := x.baseEnv(f.st)
	{
		st := f.st
		env.lookup = func(name string) (Val, bool) { return f.lookupName(name, b, st) }
		f.currentParams(env)
	}
	for i := range x.top.Keeps {
		c := x.top.Keeps[i]
		if c.KF != "" || !f.keepActive(&c, b) {
			continue
		}
		f.assume(x.evalClause(env, &c))
	}
	all := map[string]bool{}
	for k := range f.st.heap {
		all[k] = true
	}
	f.assume(x.autoFrame(f.st, all))
	f.noCtl = false
}

// ---- loops ----

// loopModKeys collects (statically) the heap keys that may be written in the loop.
func (f *frame) loopModKeys(li *loopInfo) map[string]bool {
	keys := map[string]bool{}
	sc := &modScanner{x: f.x, keys: keys, seen: map[*ssa.Function]bool{}}
	for b := range li.body {
		for _, in := range b.Instrs {
			sc.instr(in, f.depth)
			if n, ok := in.(*ssa.Next); ok {
				if r, ok := n.Iter.(*ssa.Range); ok {
					if _, isMap := under(r.X.Type()).(*types.Map); isMap {
						keys[iterKey(r)] = true
						if b == li.header {
							li.iter = r
						}
					}
				}
			}
		}
	}
	return keys
}

func iterKey(r *ssa.Range) string { return "X:iter:" + r.Name() + "@" + r.Parent().Name() }
func iterDomKey(r *ssa.Range) string {
	return "X:iterdom:" + r.Name() + "@" + r.Parent().Name()
}

func (f *frame) loopHeader(li *loopInfo, phiVals map[*ssa.Phi]Val) {
	x := f.x
	if !f.top && (li.spec == nil) {
		panic(unsupported(fmt.Sprintf("loop in inlined function %s (needs a contract)", f.fn.String())))
	}
	if li.spec == nil {
		panic(unsupported(fmt.Sprintf("%s: loop %d at %s has no invariant", funcKey(f.fn), li.ordinal, x.prog.pos(firstPos(li.header)))))
	}
	pos := x.prog.pos(firstPos(li.header))
	li.pre = f.st.clone()
	li.entryVals = map[string]Val{}
	for phi, v := range phiVals {
		if phi.Comment != "" {
			li.entryVals[phi.Comment] = v
		}
	}
	li.modKeys = f.loopModKeys(li)
	// the loop's own frame (optional): targets are evaluated in the loop-entry state
	if len(li.spec.Modifies) > 0 {
		menv := f.invEnv(li, nil)
		li.hasModT = true
		li.modT = nil
		for i := range li.spec.Modifies {
			li.modT = append(li.modT, x.resolveModifies(menv, &li.spec.Modifies[i])...)
		}
		x.pending = nil
	}
	// 1. invariants hold on entry (the contract's keep clauses are invariants of every loop)
	f.keepAt(fmt.Sprintf("loop%d.init", li.ordinal), pos, li.header)
	env := f.invEnv(li, nil)
	for i, inv := range li.spec.Invariants {
		c := inv
		t := x.evalClause(env, &c)
		f.assert(fmt.Sprintf("inv.init.loop%d.%s", li.ordinal, clauseName(&c, i)), "loop invariant holds on entry: "+c.Text, t, &c, pos)
	}
	// 2. havoc
	preAlloc := x.heap.alloc(f.st)
	for _, k := range sortedKeys(li.modKeys) {
		if k == allocKey {
			continue
		}
		f.st.heap[k] = x.vc.Const("hv."+k, x.heap.sorts[k])
		f.assume(x.heap.nilFacts(k, f.st.heap[k]))
	}
	na := x.vc.Const("alloc.loop", "Int")
	f.st.heap[allocKey] = na
	x.heap.declare(allocKey, "Int")
	f.assume(app(">=", na, preAlloc))
	for p := range phiVals {
		v := x.vc.freshVal(p.Type(), "lv."+p.Name())
		v = x.fixPtr(v)
		f.regs[p] = v
		f.assume(x.heap.valAssume(f.st, v))
	}
	li.hdrRegs = map[ssa.Value]Val{}
	for p := range phiVals {
		li.hdrRegs[p] = f.regs[p]
	}
	// 3. assume invariants and the automatic frame invariant
	env = f.invEnv(li, nil)
	for i := range li.spec.Invariants {
		c := li.spec.Invariants[i]
		if c.KF != "" {
			continue
		}
		f.assume(x.evalClause(env, &c))
	}
	if x.top != nil {
		kenv := f.invEnv(li, nil)
		for i := range x.top.Keeps {
			c := x.top.Keeps[i]
			if c.KF == "" && f.keepActive(&c, li.header) {
				f.assume(x.evalClause(kenv, &c))
			}
		}
	}
	f.assume(x.autoFrame(f.st, li.modKeys))
	f.assume(x.loopFrame(li, f.st))
	f.br = "true"
	li.hdr = f.st.clone()
	li.measure0 = nil
	for i := range li.spec.Decreases {
		c := li.spec.Decreases[i]
		v := env.Eval(c.Expr)
		v = env.coerce(v, intT)
		li.measure0 = append(li.measure0, x.vc.Def("measure", "Int", v.S))
	}
}

func clauseName(c *Clause, i int) string {
	if c.Label != "" {
		return c.Label
	}
	return fmt.Sprintf("%d", i+1)
}

func firstPos(b *ssa.BasicBlock) (p tokenPos) {
	for _, in := range b.Instrs {
		if in.Pos().IsValid() {
			return in.Pos()
		}
	}
	for _, s := range b.Succs {
		for _, in := range s.Instrs {
			if in.Pos().IsValid() {
				return in.Pos()
			}
		}
	}
	return 0
}

func (f *frame) loopBackEdge(li *loopInfo, from *ssa.BasicBlock, cond string) {
	x := f.x
	saveCur, saveBlock := f.cur, f.curBlock
	f.cur = x.vc.Def("back", "Bool", cond)
	pos := x.prog.pos(firstPos(li.header))
	// header phis take the back-edge operands
	over := map[ssa.Value]Val{}
	for _, in := range li.header.Instrs {
		phi, ok := in.(*ssa.Phi)
		if !ok {
			break
		}
		over[phi] = f.phiOperand(phi, from)
	}
	env := f.invEnv(li, over)
	for i, inv := range li.spec.Invariants {
		c := inv
		parts := SplitConj(c.Expr)
		for j, pe := range parts {
			pc := c
			pc.Expr = pe
			name := fmt.Sprintf("inv.step.loop%d.%s", li.ordinal, clauseName(&c, i))
			if len(parts) > 1 {
				name = fmt.Sprintf("%s.%d", name, j+1)
				pc.Text = SpecString(pe)
			}
			t := x.evalClause(env, &pc)
			f.assertNoAssume(name, "loop invariant preserved: "+pc.Text, t, &pc, pos)
		}
	}
	if x.top != nil {
		kenv := f.invEnv(li, over)
		for i := range x.top.Keeps {
			c := x.top.Keeps[i]
			if !f.keepActive(&c, li.header) {
				continue
			}
			t := x.evalClause(kenv, &c)
			f.assertNoAssume(fmt.Sprintf("keep.loop%d.step.%s", li.ordinal, clauseName(&c, i)), "join invariant preserved by the loop: "+c.Text, t, &c, pos)
		}
	}
	for _, k := range sortedKeys(li.modKeys) {
		if af := x.autoFrame(f.st, map[string]bool{k: true}); af != "true" {
			f.assertNoAssume(fmt.Sprintf("frame.loop%d.%s", li.ordinal, k), "writes in the loop stay within the function's modifies clause: "+k, af, nil, pos)
		}
	}
	for _, k := range sortedKeys(li.modKeys) {
		if lf := x.loopFrameKey(li, f.st, k); lf != "true" {
			f.assertNoAssume(fmt.Sprintf("frame.loop%d.local.%s", li.ordinal, k), "writes in the loop stay within the loop's modifies clause: "+k, lf, nil, pos)
		}
	}
	if len(li.spec.Decreases) > 0 {
		// lexicographic decrease, each component bounded below by 0
		var m1 []string
		for i := range li.spec.Decreases {
			c := li.spec.Decreases[i]
			v := env.coerce(env.Eval(c.Expr), intT)
			m1 = append(m1, v.S)
		}
		dec := "false"
		for i := len(m1) - 1; i >= 0; i-- {
			lt := And(app("<", m1[i], li.measure0[i]), app(">=", li.measure0[i], "0"))
			dec = Or(lt, And(Eq(m1[i], li.measure0[i]), dec))
		}
		f.assert(fmt.Sprintf("decreases.loop%d", li.ordinal), "loop variant decreases (termination)", dec, nil, pos)
	}
	f.cur, f.curBlock = saveCur, saveBlock
}

// invEnv builds the spec environment for loop invariants of li.
// currentParams: inside the body (loop invariants, join invariants, call-site assertions) a
// parameter name denotes the variable's current value, which differs from the argument when
// the parameter is assigned to; such names are resolved through the debug references.
func (f *frame) currentParams(env *Env) {
	if !f.top || f.names == nil {
		return
	}
	for _, p := range f.fn.Params {
		reassigned := false
		for _, d := range f.names[p.Name()] {
			if d.X != ssa.Value(p) && !d.IsAddr {
				reassigned = true
			}
		}
		if reassigned {
			delete(env.vars, p.Name())
		}
	}
}

func (f *frame) invEnv(li *loopInfo, over map[ssa.Value]Val) *Env {
	x := f.x
	env := x.baseEnv(f.st)
	f.currentParams(env)
	st := f.st
	env.lookup = func(name string) (Val, bool) {
		if name == "idx" {
			for _, in := range li.header.Instrs {
				if phi, ok := in.(*ssa.Phi); ok && phi.Comment == "rangeindex" {
					if v, ok := over[phi]; ok {
						return v, true
					}
					return f.regs[phi], true
				}
			}
		}
		// header phi by name
		for _, in := range li.header.Instrs {
			phi, ok := in.(*ssa.Phi)
			if !ok {
				break
			}
			if phi.Comment == name {
				if v, ok := over[phi]; ok {
					return v, true
				}
				return f.regs[phi], true
			}
		}
		return f.lookupName(name, li.header, st)
	}
	if li.iter != nil {
		it := li.iter
		env.visited = func(k string) (string, bool) {
			sort := "(Array " + x.vc.sortOf(under(it.X.Type()).(*types.Map).Key()) + " Bool)"
			return Select(x.heap.get(env.cur, iterKey(it), sort), k), true
		}
	}
	env.pre = li.pre
	env.entryOf = func(name string) (Val, bool) {
		v, ok := li.entryVals[name]
		return v, ok
	}
	return env
}

// lookupName resolves a source-level variable name to its SSA value as visible
// at block `at`: the closest dominating definition.
func (f *frame) lookupName(name string, at *ssa.BasicBlock, st *State) (Val, bool) {
	// a phi named after the variable carries its value from the phi's block on; it wins over
	// a debug reference in a block further up the dominator tree
	if at != nil {
		if phi := f.bestPhi(name, at); phi != nil {
			best := f.bestRef(name, at)
			if best == nil || (best.Block() != phi.Block() && best.Block().Dominates(phi.Block())) {
				return f.regs[phi], true
			}
		}
	}
	for _, p := range f.fn.Params {
		if p.Name() == name {
			// a parameter that is re-assigned shows up as DebugRefs to other values; prefer those that dominate
			best := f.bestRef(name, at)
			if best != nil {
				return f.refVal(best, st), true
			}
			return f.regs[p], true
		}
	}
	for _, fv := range f.fn.FreeVars {
		if fv.Name() == name {
			v := f.regs[fv]
			// free variables are pointers to the captured variable
			if p, ok := under(fv.Type()).(*types.Pointer); ok {
				return f.x.heap.load(st, f.x.fixPtr(v), p.Elem()), true
			}
			return v, true
		}
	}
	if best := f.bestRef(name, at); best != nil {
		if os.Getenv("NRIVERIF_DEBUG") != "" {
			for _, d := range f.names[name] {
				fmt.Fprintf(os.Stderr, "  ref %s b%d X=%s (%T) addr=%v\n", name, d.Block().Index, d.X.Name(), d.X, d.IsAddr)
			}
			fmt.Fprintf(os.Stderr, "lookup %s at b%d -> %s (%T) isaddr=%v val=%v\n", name, at.Index, best.X.Name(), best.X, best.IsAddr, f.refVal(best, st).S)
		}
		return f.refVal(best, st), true
	}
	return Val{}, false
}

func (f *frame) bestPhi(name string, at *ssa.BasicBlock) *ssa.Phi {
	var best *ssa.Phi
	for _, b := range f.fn.Blocks {
		if b != at && !b.Dominates(at) {
			continue
		}
		for _, in := range b.Instrs {
			phi, ok := in.(*ssa.Phi)
			if !ok {
				break
			}
			if phi.Comment != name {
				continue
			}
			if _, ok := f.regs[phi]; !ok {
				continue
			}
			if best == nil || best.Block().Dominates(b) {
				best = phi
			}
		}
	}
	return best
}

func (f *frame) bestRef(name string, at *ssa.BasicBlock) *ssa.DebugRef {
	var best *ssa.DebugRef
	for _, d := range f.names[name] {
		b := d.Block()
		if _, ok := f.regs[d.X]; !ok {
			if _, isConst := d.X.(*ssa.Const); !isConst {
				continue
			}
		}
		if b == at && f.inBlock && at == f.curBlock {
			// inside the block being executed: references already passed are visible
			// (regs only holds values computed so far, so d.X is defined)
			if best == nil || best.Block().Dominates(b) {
				best = d
			}
			continue
		}
		if b == at || !b.Dominates(at) {
			continue
		}
		if best == nil || best.Block().Dominates(b) {
			best = d
		}
	}
	// go/ssa records the zero constant at the defining identifier of `x := <composite or make>`;
	// the variable's value is the one built in the same block, which every later reference names
	if best != nil {
		if _, isConst := best.X.(*ssa.Const); isConst && len(f.names[name]) > 0 && f.names[name][0] == best {
			for _, d := range f.names[name] {
				if in, ok := d.X.(ssa.Instruction); ok && in.Block() == best.Block() {
					if _, ok := f.regs[d.X]; ok {
						return d
					}
				}
			}
		}
	}
	return best
}

func (f *frame) refVal(d *ssa.DebugRef, st *State) Val {
	v := f.val(d.X)
	if d.IsAddr {
		p := under(d.X.Type()).(*types.Pointer)
		return f.x.heap.load(st, f.x.fixPtr(v), p.Elem())
	}
	return v
}

// fixPtr makes sure pointer values carry target info.
func (x *Exec) fixPtr(v Val) Val {
	if v.P == nil {
		if p, ok := under(v.T).(*types.Pointer); ok {
			v.P = &Ptr{Kind: ptrObj, Root: p.Elem()}
		}
	}
	return v
}


// ---- frames ----

// autoFrame: for every key in keys (or all keys if nil) that is a cell array,
// objects allocated at function entry and not named by the modifies clause are
// unchanged w.r.t. the function entry state.
func (x *Exec) autoFrame(st *State, keys map[string]bool) string {
	if x.top == nil || x.top.ModAll || x.top.ModStatic {
		return "true"
	}
	var cs []string
	ks := sortedKeys(keys)
	for _, k := range ks {
		sort, ok := x.heap.sorts[k]
		if !ok || k == allocKey {
			continue
		}
		if strings.HasPrefix(k, "X:iter") || strings.HasPrefix(k, "X:defer:") || strings.HasPrefix(k, "X:ctx:") {
			continue
		}
		cur, ok := st.heap[k]
		if !ok {
			continue
		}
		init := x.heap.initial(k)
		if cur == init {
			continue
		}
		cs = append(cs, x.frameFormula(k, sort, cur, init, x.entryAlloc()))
	}
	return And(cs...)
}

// loopFrame: cells allocated at loop entry and not named by `loop N modifies` keep
// the value they had at loop entry.
func (x *Exec) loopFrame(li *loopInfo, st *State) string {
	var cs []string
	for _, k := range sortedKeys(li.modKeys) {
		cs = append(cs, x.loopFrameKey(li, st, k))
	}
	return And(cs...)
}

func (x *Exec) loopFrameKey(li *loopInfo, st *State, only string) string {
	if !li.hasModT || x.opts.RelaxFrame[only] {
		return "true"
	}
	var cs []string
	preAlloc := x.heap.get(li.pre, allocKey, "Int")
	for _, k := range []string{only} {
		sort, ok := x.heap.sorts[k]
		if !ok || k == allocKey || strings.HasPrefix(k, "X:iter") || strings.HasPrefix(k, "X:defer:") {
			continue
		}
		cur, ok := st.heap[k]
		if !ok {
			continue
		}
		base := x.heap.get(li.pre, k, sort)
		if cur == base {
			continue
		}
		cs = append(cs, x.frameFormulaT(k, sort, cur, base, preAlloc, li.modT))
	}
	return And(cs...)
}

func (x *Exec) entryAlloc() string { return x.heap.get(x.entry, allocKey, "Int") }

// frameFormula: cells of key k not covered by the modifies clause are equal in cur and init.
func (x *Exec) frameFormula(k, sort, cur, init, alloc0 string) string {
	return x.frameFormulaT(k, sort, cur, init, alloc0, x.modTargets)
}

func (x *Exec) frameFormulaT(k, sort, cur, init, alloc0 string, mts []modTarget) string {
	var targets []string
	type sub struct{ target, key string }
	var subs []sub
	whole := false
	isLen := strings.HasPrefix(k, "ML:")
	for _, mt := range mts {
		if mt.prefix != "" && strings.HasPrefix(k, mt.prefix) {
			whole = true
		}
		for _, mk := range mt.keys {
			if mk == k {
				switch {
				case mt.target == "":
					whole = true
				case mt.subkey != "" && !isLen:
					subs = append(subs, sub{mt.target, mt.subkey})
				default:
					targets = append(targets, mt.target)
				}
			}
		}
	}
	if whole {
		return "true"
	}
	if !strings.HasPrefix(sort, "(Array Int ") {
		// plain variable (global / ghost scalar)
		return Eq(cur, init)
	}
	r := sym(x.vc.fresh("fr"))
	var guards []string
	guards = append(guards, app("<", "0", r), app("<", r, alloc0))
	for _, t := range targets {
		guards = append(guards, Not(Eq(r, t)))
	}
	body := Eq(Select(cur, r), Select(init, r))
	if len(subs) > 0 {
		// maps of which only single entries may change: every other entry is unchanged
		inner := sort[len("(Array Int ") : len(sort)-1] // (Array K V)
		ksort := strings.Fields(strings.TrimPrefix(inner, "(Array "))[0]
		if strings.HasPrefix(ksort, "(") {
			ksort = "Int"
		}
		q := sym(x.vc.fresh("fk"))
		var isSub []string
		var qg []string
		for _, sb := range subs {
			isSub = append(isSub, Eq(r, sb.target))
			qg = append(qg, Implies(Eq(r, sb.target), Not(Eq(q, sb.key))))
		}
		entry := "(forall ((" + q + " " + ksort + ")) " + Implies(And(qg...), Eq(Select(Select(cur, r), q), Select(Select(init, r), q))) + ")"
		body = Ite(Or(isSub...), entry, body)
	}
	return "(forall ((" + r + " Int)) " + Implies(And(guards...), body) + ")"
}

// ---- value lookup ----

func (f *frame) val(v ssa.Value) Val {
	if r, ok := f.regs[v]; ok {
		return r
	}
	x := f.x
	switch n := v.(type) {
	case *ssa.Const:
		if n.Value == nil {
			return x.vc.zeroVal(n.Type())
		}
		return x.constVal(n.Type(), n.Value)
	case *ssa.Global:
		return Val{T: n.Type(), S: "1", P: &Ptr{Kind: ptrGlobal, Root: n.Type().(*types.Pointer).Elem(), Global: n.Pkg.Pkg.Name() + "." + n.Name()}}
	case *ssa.Function:
		id := x.funcID(n)
		return Val{T: n.Type(), S: id}
	case *ssa.Builtin:
		return Val{T: n.Type(), S: "0"}
	}
	panic(fmt.Sprintf("no value for %s (%T) in %s", v.Name(), v, f.fn))
}

func (x *Exec) funcID(fn *ssa.Function) string {
	name := fn.String()
	id := x.vc.Global("fn:"+name, "Int")
	if x.closures == nil {
		x.closures = map[string]*Closure{}
	}
	if _, ok := x.closures[id]; !ok {
		x.closures[id] = &Closure{Fn: fn}
		x.vc.FactFor(id, app(">", id, "0"))
	}
	return id
}

func (x *Exec) baseEnv(st *State) *Env {
	env := &Env{x: x, vars: map[string]Val{}, cur: st, old: x.entry}
	for k, v := range x.topVars {
		env.vars[k] = v
	}
	if x.top != nil {
		env.pkg = x.top.Pkg
	}
	return env
}

func (x *Exec) evalClause(env *Env, c *Clause) (t string) {
	defer func() {
		if r := recover(); r != nil {
			if se, ok := r.(specErr); ok {
				panic(specErr{fmt.Sprintf("%s: in clause %q: %s", x.vc.Unit, c.Text, se.msg)})
			}
			panic(r)
		}
	}()
	return x.vc.Def("cl", "Bool", env.EvalBool(c.Expr))
}

func (x *Exec) resolveType(s string, pkg *types.Package) types.Type {
	t, err := x.prog.resolveType(s, pkg)
	if err != nil {
		sfail("%v", err)
	}
	return t
}

func (x *Exec) typeTag(t types.Type) int { return x.prog.typeTag(t) }

func (x *Exec) isNil(v Val) string {
	switch under(v.T).(type) {
	case *types.Interface:
		return Eq(v.Fs[0].S, "0")
	case *types.Slice:
		return Eq(v.Fs[0].S, "0")
	}
	return Eq(v.S, "0")
}

// fieldAddrPath returns the pointer to the (possibly nested) field.
func (x *Exec) fieldAddrPath(base Val, st types.Type, path []int) Val {
	base = x.fixPtr(base)
	p := *base.P
	t := st
	for _, i := range path {
		s := under(t).(*types.Struct)
		fld := s.Field(i)
		p.Path = joinPath(p.Path, fld.Name())
		t = fld.Type()
	}
	return Val{T: types.NewPointer(t), S: base.S, P: &p}
}

type tokenPos = tokenPosT
