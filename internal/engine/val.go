package engine

import (
	"fmt"
	"go/types"
	"strings"
)

// Val is a symbolic Go value.
//   - scalar kinds (bool, ints, string, float, map, chan, func): S is the SMT term
//   - pointers: S is the base reference (Int, 0 = nil), P describes what it points at
//   - struct / slice / interface / tuple / array-of-struct: Fs are the components
type Val struct {
	T  types.Type
	S  string
	Fs []Val
	P  *Ptr
}

// Ptr describes the target of a pointer value.
type Ptr struct {
	Kind   int        // 0 object (base ref + static path), 1 slice element, 2 global
	Root   types.Type // type of the object at the base (Kind 0: type of *base; 1: element type; 2: global's type)
	Path   string     // static interior path inside Root ("" = whole object)
	Idx    string     // Kind 1: element index term
	Global string     // Kind 2: global name
	Sub    int        // Kind 3 (array element): kind of the pointer to the enclosing array
}

const (
	ptrObj = iota
	ptrElem
	ptrGlobal
	ptrArrElem
	ptrArrObj // pointer to a standalone array object [N]T (T scalar): contents live in the element heap E:T at the base ref
)

type Leaf struct {
	Path string
	T    types.Type
}

func under(t types.Type) types.Type {
	for {
		switch x := t.(type) {
		case *types.Named:
			t = x.Underlying()
		case *types.Alias:
			t = types.Unalias(x)
		default:
			return t.Underlying()
		}
	}
}

func isScalar(t types.Type) bool {
	switch u := under(t).(type) {
	case *types.Basic:
		return u.Kind() != types.UntypedNil || true
	case *types.Pointer, *types.Map, *types.Chan, *types.Signature:
		return true
	case *types.Array:
		return isScalar(u.Elem())
	}
	return false
}

func joinPath(a, b string) string {
	if a == "" {
		return b
	}
	if b == "" {
		return a
	}
	if strings.HasPrefix(b, "#") {
		return a + b
	}
	return a + "." + b
}

// leaves flattens a Go type into its scalar leaves.
func leaves(t types.Type) []Leaf {
	switch u := under(t).(type) {
	case *types.Struct:
		var out []Leaf
		for i := 0; i < u.NumFields(); i++ {
			f := u.Field(i)
			for _, l := range leaves(f.Type()) {
				out = append(out, Leaf{joinPath(f.Name(), l.Path), l.T})
			}
		}
		return out
	case *types.Slice:
		it := types.Typ[types.Int]
		return []Leaf{{"#base", types.NewPointer(u.Elem())}, {"#off", it}, {"#len", it}, {"#cap", it}}
	case *types.Interface:
		it := types.Typ[types.Int]
		return []Leaf{{"#tag", it}, {"#val", it}}
	case *types.Tuple:
		var out []Leaf
		for i := 0; i < u.Len(); i++ {
			for _, l := range leaves(u.At(i).Type()) {
				out = append(out, Leaf{joinPath(fmt.Sprintf("%d", i), l.Path), l.T})
			}
		}
		return out
	case *types.Array:
		if u.Len() == 0 {
			return nil
		}
		if !isScalar(u.Elem()) {
			panic(unsupported("array of non-scalar " + t.String()))
		}
		return []Leaf{{"", t}}
	default:
		return []Leaf{{"", t}}
	}
}

type unsupportedErr struct{ msg string }

func (e unsupportedErr) Error() string { return "unsupported: " + e.msg }
func unsupported(msg string) error      { return unsupportedErr{msg} }

// typeKey gives a stable short name for a type, used in heap variable names.
func typeKey(t types.Type) string {
	return types.TypeString(canon(t), func(p *types.Package) string { return p.Name() })
}

// canon removes type aliases (adaptation.CDIDevice = api.CDIDevice) at every level,
// so that one Go type has exactly one heap-variable name.
func canon(t types.Type) types.Type {
	switch u := t.(type) {
	case *types.Alias:
		return canon(types.Unalias(u))
	case *types.Pointer:
		return types.NewPointer(canon(u.Elem()))
	case *types.Slice:
		return types.NewSlice(canon(u.Elem()))
	case *types.Array:
		return types.NewArray(canon(u.Elem()), u.Len())
	case *types.Map:
		return types.NewMap(canon(u.Key()), canon(u.Elem()))
	case *types.Chan:
		return types.NewChan(u.Dir(), canon(u.Elem()))
	}
	return t
}

// sortOf returns the SMT sort of a scalar type.
func (vc *VC) sortOf(t types.Type) string {
	switch u := under(t).(type) {
	case *types.Basic:
		switch {
		case u.Info()&types.IsBoolean != 0:
			return "Bool"
		case u.Info()&types.IsString != 0:
			return "String"
		case u.Info()&types.IsFloat != 0:
			return "Real"
		case u.Info()&types.IsInteger != 0:
			if vc.BV {
				return fmt.Sprintf("(_ BitVec %d)", intBits(u))
			}
			return "Int"
		case u.Kind() == types.UnsafePointer, u.Kind() == types.UntypedNil:
			return "Int"
		}
	case *types.Pointer, *types.Map, *types.Chan, *types.Signature:
		return "Int"
	case *types.Array:
		return "(Array Int " + vc.sortOf(u.Elem()) + ")"
	}
	panic(unsupported("sortOf " + t.String()))
}

func intBits(b *types.Basic) int {
	switch b.Kind() {
	case types.Int8, types.Uint8:
		return 8
	case types.Int16, types.Uint16:
		return 16
	case types.Int32, types.Uint32:
		return 32
	}
	return 64
}

func isUnsigned(t types.Type) bool {
	if b, ok := under(t).(*types.Basic); ok {
		return b.Info()&types.IsUnsigned != 0
	}
	return false
}

func isInteger(t types.Type) bool {
	if b, ok := under(t).(*types.Basic); ok {
		return b.Info()&types.IsInteger != 0
	}
	return false
}

func isString(t types.Type) bool {
	if b, ok := under(t).(*types.Basic); ok {
		return b.Info()&types.IsString != 0
	}
	return false
}

func isBool(t types.Type) bool {
	if b, ok := under(t).(*types.Basic); ok {
		return b.Info()&types.IsBoolean != 0
	}
	return false
}

func isPointer(t types.Type) bool {
	_, ok := under(t).(*types.Pointer)
	return ok
}

func isInterface(t types.Type) bool {
	_, ok := under(t).(*types.Interface)
	return ok
}

// intLit renders an integer literal of Go type t.
func (vc *VC) intLit(t types.Type, n int64) string {
	if vc.BV && isInteger(t) {
		bits := intBits(under(t).(*types.Basic))
		u := uint64(n)
		if bits < 64 {
			u &= (1 << uint(bits)) - 1
		}
		return fmt.Sprintf("(_ bv%d %d)", u, bits)
	}
	return IntLit(n)
}

// zeroScalar returns the zero value term of a scalar type.
func (vc *VC) zeroScalar(t types.Type) string {
	switch u := under(t).(type) {
	case *types.Basic:
		switch {
		case u.Info()&types.IsBoolean != 0:
			return "false"
		case u.Info()&types.IsString != 0:
			return "\"\""
		case u.Info()&types.IsFloat != 0:
			return "0.0"
		case u.Info()&types.IsInteger != 0:
			return vc.intLit(t, 0)
		}
		return "0"
	case *types.Array:
		return constArray(vc.sortOf(t), vc.zeroScalar(u.Elem()))
	}
	return "0"
}

// buildVal assembles a Val of type t from a function giving each leaf's term.
func (vc *VC) buildVal(t types.Type, prefix string, leaf func(path string, lt types.Type) string) Val {
	switch u := under(t).(type) {
	case *types.Struct:
		v := Val{T: t}
		for i := 0; i < u.NumFields(); i++ {
			f := u.Field(i)
			v.Fs = append(v.Fs, vc.buildVal(f.Type(), joinPath(prefix, f.Name()), leaf))
		}
		return v
	case *types.Slice:
		it := types.Typ[types.Int]
		return Val{T: t, Fs: []Val{
			{T: types.NewPointer(u.Elem()), S: leaf(prefix+"#base", types.NewPointer(u.Elem()))},
			{T: it, S: leaf(prefix+"#off", it)},
			{T: it, S: leaf(prefix+"#len", it)},
			{T: it, S: leaf(prefix+"#cap", it)},
		}}
	case *types.Interface:
		it := types.Typ[types.Int]
		return Val{T: t, Fs: []Val{{T: it, S: leaf(prefix+"#tag", it)}, {T: it, S: leaf(prefix+"#val", it)}}}
	case *types.Tuple:
		v := Val{T: t}
		for i := 0; i < u.Len(); i++ {
			v.Fs = append(v.Fs, vc.buildVal(u.At(i).Type(), joinPath(prefix, fmt.Sprintf("%d", i)), leaf))
		}
		return v
	case *types.Pointer:
		return Val{T: t, S: leaf(prefix, t), P: &Ptr{Kind: ptrObj, Root: u.Elem()}}
	case *types.Array:
		if u.Len() == 0 {
			return Val{T: t}
		}
		return Val{T: t, S: leaf(prefix, t)}
	default:
		return Val{T: t, S: leaf(prefix, t)}
	}
}

// eachLeaf visits the scalar leaves of v in the same order/paths as leaves(v.T).
func eachLeaf(v Val, prefix string, f func(path string, lv Val)) {
	switch u := under(v.T).(type) {
	case *types.Struct:
		for i := 0; i < u.NumFields(); i++ {
			eachLeaf(v.Fs[i], joinPath(prefix, u.Field(i).Name()), f)
		}
	case *types.Slice:
		names := []string{"#base", "#off", "#len", "#cap"}
		for i, n := range names {
			f(prefix+n, v.Fs[i])
		}
	case *types.Interface:
		f(prefix+"#tag", v.Fs[0])
		f(prefix+"#val", v.Fs[1])
	case *types.Tuple:
		for i := 0; i < u.Len(); i++ {
			eachLeaf(v.Fs[i], joinPath(prefix, fmt.Sprintf("%d", i)), f)
		}
	case *types.Array:
		if u.Len() == 0 {
			return
		}
		f(prefix, v)
	default:
		f(prefix, v)
	}
}

func (vc *VC) zeroVal(t types.Type) Val {
	return vc.buildVal(t, "", func(p string, lt types.Type) string { return vc.zeroScalar(lt) })
}

// freshVal creates a Val of type t from fresh constants.
func (vc *VC) freshVal(t types.Type, name string) Val {
	return vc.buildVal(t, "", func(p string, lt types.Type) string {
		return vc.Const(name+p, vc.sortOf(lt))
	})
}

// iteVal merges two values of the same type.
func (vc *VC) iteVal(c string, a, b Val) Val {
	if c == "true" {
		return a
	}
	if c == "false" {
		return b
	}
	if len(a.Fs) > 0 || len(b.Fs) > 0 {
		if len(a.Fs) != len(b.Fs) {
			panic(fmt.Sprintf("iteVal: shape mismatch %v vs %v", a.T, b.T))
		}
		out := Val{T: a.T, Fs: make([]Val, len(a.Fs))}
		for i := range a.Fs {
			out.Fs[i] = vc.iteVal(c, a.Fs[i], b.Fs[i])
		}
		return out
	}
	out := Val{T: a.T, S: Ite(c, a.S, b.S), P: a.P}
	if a.P == nil {
		out.P = b.P
	}
	if a.P != nil && b.P != nil && (a.P.Path != b.P.Path || a.P.Kind != b.P.Kind || a.P.Idx != b.P.Idx) {
		// merging pointers with different static interiors is not supported, unless
		// one side is nil
		if a.S == "0" {
			out.P = b.P
		} else if b.S == "0" {
			out.P = a.P
		} else if a.P.Kind == ptrElem && b.P.Kind == ptrElem && a.P.Path == b.P.Path {
			p := *a.P
			p.Idx = Ite(c, a.P.Idx, b.P.Idx)
			out.P = &p
		} else {
			panic(unsupported("merging interior pointers with different paths"))
		}
	}
	return out
}

// eqVal returns the term for a == b (Go equality, component-wise).
func (vc *VC) eqVal(a, b Val) string {
	if len(a.Fs) > 0 || len(b.Fs) > 0 {
		if len(a.Fs) != len(b.Fs) {
			panic(fmt.Sprintf("eqVal: shape mismatch %v vs %v", a.T, b.T))
		}
		var cs []string
		for i := range a.Fs {
			cs = append(cs, vc.eqVal(a.Fs[i], b.Fs[i]))
		}
		return And(cs...)
	}
	if a.P != nil && b.P != nil && a.P.Kind == ptrElem && b.P.Kind == ptrElem {
		return And(Eq(a.S, b.S), Eq(a.P.Idx, b.P.Idx))
	}
	return Eq(a.S, b.S)
}
