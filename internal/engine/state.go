package engine

import (
	"os"
	"fmt"
	"go/types"
	"strings"
)

// State is a symbolic heap: heap variable key -> current term.  A missing key
// means "still the entry value" (H0:<key>).
type State struct {
	heap map[string]string
}

func newState() *State { return &State{heap: map[string]string{}} }

func (s *State) clone() *State {
	n := &State{heap: make(map[string]string, len(s.heap))}
	for k, v := range s.heap {
		n.heap[k] = v
	}
	return n
}

// Heap holds the registry of heap variables (key -> sort) for one VC.
type Heap struct {
	vc    *VC
	sorts map[string]string
	order []string
	refs  map[string]bool // keys whose cells hold references (pointers, maps, channels, slice bases)
	closed map[string]bool
}

func newHeap(vc *VC) *Heap {
	return &Heap{vc: vc, sorts: map[string]string{}, refs: map[string]bool{}, closed: map[string]bool{}}
}

func isRefType(t types.Type) bool {
	switch under(t).(type) {
	case *types.Pointer, *types.Map, *types.Chan:
		return true
	}
	return false
}

func (h *Heap) noteRef(key string, lt types.Type) {
	if isRefType(lt) {
		h.refs[key] = true
	}
}

func (h *Heap) declare(key, sort string) {
	if old, ok := h.sorts[key]; ok {
		if old != sort {
			panic(fmt.Sprintf("heap var %s: sort %s vs %s", key, old, sort))
		}
		return
	}
	h.sorts[key] = sort
	h.order = append(h.order, key)
	if nf := h.nilFacts(key, h.vc.Global("H0:"+key, sort)); nf != "true" {
		h.vc.FactFor(sym("H0:"+key), nf)
	}
}

// nilFacts: the nil map (reference 0) is empty, in every version of the map heap.
func (h *Heap) nilFacts(key, term string) string {
	switch {
	case strings.HasPrefix(key, "MD:"):
		sort := h.sorts[key]
		inner := sort[len("(Array Int ") : len(sort)-1]
		return Eq(Select(term, "0"), constArray(inner, "false"))
	case strings.HasPrefix(key, "ML:"):
		return Eq(Select(term, "0"), "0")
	case strings.HasPrefix(key, "F:"):
		// convention: fields of the nil object read as zero values (never observable in Go,
		// since dereferencing nil panics; stores and havocs at reference 0 are excluded)
		sort := h.sorts[key]
		inner := sort[len("(Array Int ") : len(sort)-1]
		if z := zeroOfSort(inner); z != "" {
			return Eq(Select(term, "0"), z)
		}
	}
	return "true"
}

func zeroOfSort(s string) string {
	switch s {
	case "Int":
		return "0"
	case "Bool":
		return "false"
	case "String":
		return "\"\""
	case "Real":
		return "0.0"
	}
	if strings.HasPrefix(s, "(_ BitVec ") {
		n := strings.TrimSuffix(strings.TrimPrefix(s, "(_ BitVec "), ")")
		return "(_ bv0 " + n + ")"
	}
	return ""
}

func (h *Heap) initial(key string) string {
	g := h.vc.Global("H0:"+key, h.sorts[key])
	if h.refs[key] && !h.closed[key] && !h.vc.BV && !NoClosedHeap {
		// the entry heap is closed: every reference stored in it is nil or allocated
		h.closed[key] = true
		a := h.vc.Global("H0:"+allocKey, "Int")
		rng := func(t string) string { return And(app("<=", "0", t), app("<", t, a)) }
		switch {
		case strings.HasPrefix(key, "F:"):
			h.vc.FactFor(g, "(forall ((o Int)) "+Implies(rng("o"), rng(Select(g, "o")))+")")
		case strings.HasPrefix(key, "E:"):
			h.vc.FactFor(g, "(forall ((o Int) (i Int)) "+Implies(rng("o"), rng(Select(Select(g, "o"), "i")))+")")
		case strings.HasPrefix(key, "MV:"):
			// (Array Int (Array K V)): take the key sort from the declared sort
			srt := h.sorts[key]
			inner := strings.TrimSuffix(strings.TrimPrefix(srt, "(Array Int (Array "), "))")
			if k := strings.LastIndex(inner, " "); k > 0 {
				h.vc.FactFor(g, "(forall ((o Int) (k "+inner[:k]+")) "+Implies(rng("o"), rng(Select(Select(g, "o"), "k")))+")")
			}
		}
	}
	return g
}

// NoClosedHeap switches the entry-heap closedness axiom off (debugging).
var NoClosedHeap = os.Getenv("NRIVERIF_NOCLOSED") == "1"

func (h *Heap) get(s *State, key, sort string) string {
	h.declare(key, sort)
	if t, ok := s.heap[key]; ok {
		return t
	}
	return h.initial(key)
}

func (h *Heap) set(s *State, key, sort, term string) {
	h.declare(key, sort)
	s.heap[key] = h.vc.Def("h."+key, sort, term)
}

const allocKey = "A"

func (h *Heap) alloc(s *State) string { return h.get(s, allocKey, "Int") }

// ---- heap variable keys ----

func fieldKey(root types.Type, path string) string { return "F:" + typeKey(root) + ":" + path }
func elemKey(elem types.Type, path string) string  { return "E:" + typeKey(elem) + ":" + path }
func globalKey(name, path string) string           { return "G:" + name + ":" + path }
func mapKeyPrefix(m *types.Map) string             { return typeKey(m.Key()) + "|" + typeKey(m.Elem()) }

func (h *Heap) arrSort(elem string) string { return "(Array Int " + elem + ")" }

// typeAssume returns the well-formedness facts that hold for any value of
// (scalar) type t stored in memory: references are allocated, unsigned ints are
// non-negative, sized ints are in range.
func (h *Heap) typeAssume(s *State, t types.Type, term string) string {
	switch u := under(t).(type) {
	case *types.Pointer, *types.Map, *types.Chan:
		return And(app("<=", "0", term), app("<", term, h.alloc(s)))
	case *types.Basic:
		if u.Info()&types.IsInteger != 0 && !h.vc.BV {
			bits := intBits(u)
			if u.Info()&types.IsUnsigned != 0 {
				if bits == 64 {
					return And(app("<=", "0", term), app("<=", term, "18446744073709551615"))
				}
				return And(app("<=", "0", term), app("<", term, fmt.Sprintf("%d", uint64(1)<<uint(bits))))
			}
			if bits == 64 {
				return And(app("<=", "(- 9223372036854775808)", term), app("<=", term, "9223372036854775807"))
			}
			return And(app("<=", IntLit(-(int64(1)<<uint(bits-1))), term), app("<", term, IntLit(int64(1)<<uint(bits-1))))
		}
	}
	return "true"
}

// valAssume gives the well-formedness assumptions for a composite value.
func (h *Heap) valAssume(s *State, v Val) string {
	var cs []string
	var walk func(v Val)
	walk = func(v Val) {
		switch under(v.T).(type) {
		case *types.Slice:
			base, off, ln, cp := v.Fs[0].S, v.Fs[1].S, v.Fs[2].S, v.Fs[3].S
			zero, ge := "0", "<="
			if h.vc.BV {
				zero, ge = h.vc.intLit(types.Typ[types.Int], 0), "bvsle"
			}
			cs = append(cs, app("<=", "0", base), app("<", base, h.alloc(s)),
				app(ge, zero, off), app(ge, zero, ln), app(ge, ln, cp),
				Implies(Eq(base, "0"), Eq(cp, zero)))
			return
		case *types.Interface:
			cs = append(cs, app("<=", "0", v.Fs[0].S), Implies(Eq(v.Fs[0].S, "0"), Eq(v.Fs[1].S, "0")))
			return
		}
		if len(v.Fs) > 0 {
			for _, f := range v.Fs {
				walk(f)
			}
			return
		}
		if a := h.typeAssume(s, v.T, v.S); a != "true" {
			cs = append(cs, a)
		}
	}
	walk(v)
	return And(cs...)
}

// ---- object fields ----

func (h *Heap) cellKeySort(p *Ptr, leafPath string, lt types.Type) (string, string) {
	k, srt := h.cellKeySort0(p, leafPath, lt)
	h.noteRef(k, lt)
	return k, srt
}

func (h *Heap) cellKeySort0(p *Ptr, leafPath string, lt types.Type) (string, string) {
	switch p.Kind {
	case ptrObj:
		return fieldKey(p.Root, joinPath(p.Path, leafPath)), h.arrSort(h.vc.sortOf(lt))
	case ptrElem:
		return elemKey(p.Root, joinPath(p.Path, leafPath)), h.arrSort(h.arrSort(h.vc.sortOf(lt)))
	case ptrGlobal:
		return globalKey(p.Global, joinPath(p.Path, leafPath)), h.vc.sortOf(lt)
	}
	panic("bad ptr kind")
}

// subType returns the type found at static path inside root.
func subType(root types.Type, path string) types.Type {
	t := root
	if path == "" {
		return t
	}
	for _, part := range strings.Split(path, ".") {
		st, ok := under(t).(*types.Struct)
		if !ok {
			panic("subType: not a struct at " + part + " in " + root.String())
		}
		found := false
		for i := 0; i < st.NumFields(); i++ {
			if st.Field(i).Name() == part {
				t = st.Field(i).Type()
				found = true
				break
			}
		}
		if !found {
			panic("subType: no field " + part + " in " + t.String())
		}
	}
	return t
}

// load reads the value of type t at pointer p.
func (h *Heap) load(s *State, p Val, t types.Type) Val {
	if p.P == nil {
		panic(unsupported("load through pointer without target info: " + p.T.String()))
	}
	return h.vc.buildVal(t, "", func(path string, lt types.Type) string {
		key, sort := h.cellKeySort(p.P, path, lt)
		cur := h.get(s, key, sort)
		// loaded values are named (hash-consed), so that the same location read by the
		// code and by a spec expression is literally the same term
		switch p.P.Kind {
		case ptrObj:
			return h.vc.Def("ld", h.vc.sortOf(lt), Select(cur, p.S))
		case ptrElem:
			return h.vc.Def("ld", h.vc.sortOf(lt), Select(Select(cur, p.S), p.P.Idx))
		default:
			return cur
		}
	})
}

// store writes v at pointer p.
func (h *Heap) store(s *State, p Val, v Val) {
	if p.P == nil {
		panic(unsupported("store through pointer without target info: " + p.T.String()))
	}
	eachLeaf(v, "", func(path string, lv Val) {
		key, sort := h.cellKeySort(p.P, path, lv.T)
		cur := h.get(s, key, sort)
		switch p.P.Kind {
		case ptrObj:
			h.set(s, key, sort, Store(cur, p.S, lv.S))
		case ptrElem:
			h.set(s, key, sort, Store(cur, p.S, Store(Select(cur, p.S), p.P.Idx, lv.S)))
		default:
			h.set(s, key, sort, lv.S)
		}
	})
}

// newObj allocates a fresh object of type t (zero-initialised) and returns the pointer.
func (h *Heap) newObj(s *State, t types.Type, zero bool) Val {
	a := h.alloc(s)
	ref := h.vc.Def("new", "Int", a)
	h.set(s, allocKey, "Int", app("+", a, "1"))
	p := Val{T: types.NewPointer(t), S: ref, P: &Ptr{Kind: ptrObj, Root: t}}
	if zero {
		// protobuf-internal bookkeeping fields (state, sizeCache, unknownFields) are never
		// read by NRI code; leaving them unconstrained is a sound over-approximation and
		// keeps dozens of irrelevant heap variables out of every query
		eachLeaf(h.vc.zeroVal(t), "", func(path string, lv Val) {
			top := path
			if k := strings.IndexAny(path, ".#"); k >= 0 {
				top = path[:k]
			}
			if top == "state" || top == "sizeCache" || top == "unknownFields" {
				return
			}
			key, sort := h.cellKeySort(p.P, path, lv.T)
			h.set(s, key, sort, Store(h.get(s, key, sort), p.S, lv.S))
		})
		// locks and once-flags embedded in a fresh object start out free / not done
		h.initLocks(s, t, t, "", ref)
	}
	return p
}

func (h *Heap) initLocks(s *State, root, t types.Type, path, ref string) {
	if n, ok := t.(*types.Named); ok && n.Obj().Pkg() != nil && n.Obj().Pkg().Path() == "sync" {
		switch n.Obj().Name() {
		case "Mutex", "RWMutex", "Once":
			key := typeKey(root) + ":" + path
			for _, kv := range [][3]string{{"held", "(Array Int Bool)", "false"}, {"done", "(Array Int Bool)", "false"}, {"rheld", "(Array Int Int)", "0"}} {
				k := "X:lock:" + kv[0] + ":" + key
				h.set(s, k, kv[1], Store(h.get(s, k, kv[1]), ref, kv[2]))
			}
		}
		return
	}
	if st, ok := under(t).(*types.Struct); ok {
		for i := 0; i < st.NumFields(); i++ {
			h.initLocks(s, root, st.Field(i).Type(), joinPath(path, st.Field(i).Name()), ref)
		}
	}
}

// ---- maps ----

type mapInfo struct {
	m             *types.Map
	ksort, domKey string
	domSort       string
	lenKey        string
}

func (h *Heap) mapInfo(t types.Type) mapInfo {
	m := under(t).(*types.Map)
	ks := h.vc.sortOf(m.Key())
	pre := mapKeyPrefix(m)
	return mapInfo{m: m, ksort: ks, domKey: "MD:" + pre, domSort: h.arrSort("(Array " + ks + " Bool)"), lenKey: "ML:" + pre}
}

func (mi mapInfo) valKey(path string) string { return "MV:" + mapKeyPrefix(mi.m) + ":" + path }

func (h *Heap) mapDom(s *State, m Val) string {
	mi := h.mapInfo(m.T)
	return Select(h.get(s, mi.domKey, mi.domSort), m.S)
}

func (h *Heap) mapHas(s *State, m Val, k string) string {
	return Select(h.mapDom(s, m), k)
}

func (h *Heap) mapLen(s *State, m Val) string {
	mi := h.mapInfo(m.T)
	return Select(h.get(s, mi.lenKey, h.arrSort("Int")), m.S)
}

// mapRaw reads the stored value (meaningful only when the key is present).
func (h *Heap) mapRaw(s *State, m Val, k string) Val {
	mi := h.mapInfo(m.T)
	return h.vc.buildVal(mi.m.Elem(), "", func(path string, lt types.Type) string {
		sort := h.arrSort("(Array " + mi.ksort + " " + h.vc.sortOf(lt) + ")")
		h.noteRef(mi.valKey(path), lt)
		return Select(Select(h.get(s, mi.valKey(path), sort), m.S), k)
	})
}

// mapGet is Go's m[k]: zero value when absent.
func (h *Heap) mapGet(s *State, m Val, k string) Val {
	mi := h.mapInfo(m.T)
	has := h.vc.Def("has", "Bool", h.mapHas(s, m, k))
	v := h.vc.iteVal(has, h.mapRaw(s, m, k), h.vc.zeroVal(mi.m.Elem()))
	return h.nameLeaves("mg", v)
}

func (h *Heap) mapSet(s *State, m Val, k string, v Val) {
	mi := h.mapInfo(m.T)
	dom := h.get(s, mi.domKey, mi.domSort)
	had := Select(Select(dom, m.S), k)
	lens := h.get(s, mi.lenKey, h.arrSort("Int"))
	h.set(s, mi.lenKey, h.arrSort("Int"), Store(lens, m.S, Ite(had, Select(lens, m.S), app("+", Select(lens, m.S), "1"))))
	h.set(s, mi.domKey, mi.domSort, Store(dom, m.S, Store(Select(dom, m.S), k, "true")))
	eachLeaf(v, "", func(path string, lv Val) {
		sort := h.arrSort("(Array " + mi.ksort + " " + h.vc.sortOf(lv.T) + ")")
		cur := h.get(s, mi.valKey(path), sort)
		h.set(s, mi.valKey(path), sort, Store(cur, m.S, Store(Select(cur, m.S), k, lv.S)))
	})
}

func (h *Heap) mapDelete(s *State, m Val, k string) {
	mi := h.mapInfo(m.T)
	dom := h.get(s, mi.domKey, mi.domSort)
	had := Select(Select(dom, m.S), k)
	lens := h.get(s, mi.lenKey, h.arrSort("Int"))
	// delete on a nil map is a no-op: nil maps have an empty domain, so this is consistent
	h.set(s, mi.lenKey, h.arrSort("Int"), Store(lens, m.S, Ite(had, app("-", Select(lens, m.S), "1"), Select(lens, m.S))))
	h.set(s, mi.domKey, mi.domSort, Store(dom, m.S, Store(Select(dom, m.S), k, "false")))
}

// newMap allocates an empty map.
func (h *Heap) newMap(s *State, t types.Type) Val {
	mi := h.mapInfo(t)
	a := h.alloc(s)
	ref := h.vc.Def("newmap", "Int", a)
	h.set(s, allocKey, "Int", app("+", a, "1"))
	dom := h.get(s, mi.domKey, mi.domSort)
	h.set(s, mi.domKey, mi.domSort, Store(dom, ref, constArray("(Array "+mi.ksort+" Bool)", "false")))
	lens := h.get(s, mi.lenKey, h.arrSort("Int"))
	h.set(s, mi.lenKey, h.arrSort("Int"), Store(lens, ref, "0"))
	return Val{T: t, S: ref}
}

// mapFacts are always-true facts about a map reference (instantiated on use).
func (h *Heap) mapFacts(s *State, m Val, k string) string {
	ln := h.mapLen(s, m)
	cs := []string{app(">=", ln, "0"),
		Implies(Eq(m.S, "0"), Eq(ln, "0"))}
	if k != "" {
		cs = append(cs, Implies(h.mapHas(s, m, k), app(">=", ln, "1")))
		cs = append(cs, Implies(Eq(m.S, "0"), Not(h.mapHas(s, m, k))))
	}
	return And(cs...)
}

// ---- slices ----

func sliceElem(t types.Type) types.Type { return under(t).(*types.Slice).Elem() }

func (h *Heap) elemPtr(sl Val, idx string) Val {
	et := sliceElem(sl.T)
	i := idx
	if h.vc.BV {
		panic(unsupported("slice indexing in bit-vector mode"))
	}
	abs := app("+", sl.Fs[1].S, i)
	if pre := "(- "; strings.HasPrefix(i, pre) && strings.HasSuffix(i, " "+sl.Fs[1].S+")") {
		// (off + (A - off)) = A: indices handed over as absolute positions minus the offset
		abs = i[len(pre) : len(i)-len(sl.Fs[1].S)-2]
	}
	return Val{T: types.NewPointer(et), S: sl.Fs[0].S, P: &Ptr{Kind: ptrElem, Root: et, Idx: abs}}
}

func (h *Heap) mkSlice(t types.Type, base, off, ln, cp string) Val {
	it := types.Typ[types.Int]
	return Val{T: t, Fs: []Val{{T: types.NewPointer(sliceElem(t)), S: base}, {T: it, S: off}, {T: it, S: ln}, {T: it, S: cp}}}
}

// newArray allocates a fresh backing array.
func (h *Heap) newArray(s *State) string {
	a := h.alloc(s)
	ref := h.vc.Def("newarr", "Int", a)
	h.set(s, allocKey, "Int", app("+", a, "1"))
	return ref
}

func (h *Heap) nameLeaves(prefix string, v Val) Val {
	if len(v.Fs) > 0 {
		out := Val{T: v.T, Fs: make([]Val, len(v.Fs)), P: v.P}
		for i := range v.Fs {
			out.Fs[i] = h.nameLeaves(prefix, v.Fs[i])
		}
		return out
	}
	if v.T == nil || v.S == "" {
		return v
	}
	out := v
	out.S = h.vc.Def(prefix, h.vc.sortOf(v.T), v.S)
	return out
}
