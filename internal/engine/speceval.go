package engine

import (
	"fmt"
	"go/constant"
	"go/types"
	"strconv"
	"strings"

	"golang.org/x/tools/go/ssa"
)

// Env is the evaluation environment of a spec expression.
type Env struct {
	x      *Exec
	vars   map[string]Val
	cur    *State
	old    *State
	lookup func(name string) (Val, bool) // source-variable resolver (loop invariants)
	pkg    *types.Package
	depth  int
	// iterator context for `visited(k)` inside loop invariants
	visited func(k string) (string, bool)
	pre     *State // loop-entry state (for pre(e) in loop invariants)
	entryOf func(name string) (Val, bool) // entry(x): loop-carried local x at loop entry
	// quantifier anchoring (see evalQuant): slice accesses s[i] by a bound variable are
	// rewritten to absolute positions so that the SMT trigger contains no arithmetic
	probe   *anchorProbe
	anchors map[*SIndex]string
	anchorsC map[*SCall]string
}

// (Env.entryOf is set for loop invariants: the value of a loop-carried local at loop entry)
type anchorProbe struct {
	outer  *anchorProbe      // probe of the enclosing quantifier (while that one is in its probing pass)
	vars   map[string]string // bound variable name -> SMT symbol
	found  map[string]*SIndex
	foundC map[string]*SCall
	shift  map[string]string
}

func (e *Env) with(name string, v Val) *Env {
	n := *e
	n.vars = make(map[string]Val, len(e.vars)+1)
	for k, x := range e.vars {
		n.vars[k] = x
	}
	n.vars[name] = v
	return &n
}

func (e *Env) inState(s *State) *Env {
	n := *e
	n.cur = s
	return &n
}

type specErr struct{ msg string }

func (e specErr) Error() string { return e.msg }

func sfail(format string, a ...interface{}) {
	panic(specErr{fmt.Sprintf(format, a...)})
}

var untypedInt = types.Typ[types.UntypedInt]
var untypedNil = types.Typ[types.UntypedNil]
var boolT = types.Typ[types.Bool]
var intT = types.Typ[types.Int]
var stringT = types.Typ[types.String]

func boolVal(s string) Val { return Val{T: boolT, S: s} }

// EvalBool evaluates a boolean spec expression to an SMT term.
func (e *Env) EvalBool(x SExpr) string {
	v := e.Eval(x)
	if !isBool(v.T) {
		sfail("expected boolean expression, got %s", v.T)
	}
	return v.S
}

func (e *Env) vc() *VC   { return e.x.vc }
func (e *Env) hp() *Heap { return e.x.heap }

// coerce adapts untyped constants to the type of the other operand.
func (e *Env) coerce(v Val, t types.Type) Val {
	if v.T == untypedInt {
		if isInteger(t) {
			n, err := strconv.ParseInt(v.S, 0, 64)
			if err != nil {
				u, err2 := strconv.ParseUint(v.S, 0, 64)
				if err2 != nil {
					sfail("bad integer literal %s", v.S)
				}
				n = int64(u)
			}
			return Val{T: t, S: e.vc().intLit(t, n)}
		}
		if b, ok := under(t).(*types.Basic); ok && b.Info()&types.IsFloat != 0 {
			return Val{T: t, S: v.S + ".0"}
		}
		n, _ := strconv.ParseInt(v.S, 0, 64)
		return Val{T: intT, S: IntLit(n)}
	}
	if v.T == untypedNil {
		switch under(t).(type) {
		case *types.Interface, *types.Slice:
			return e.vc().zeroVal(t)
		}
		return Val{T: t, S: "0"}
	}
	return v
}

func (e *Env) unify(a, b Val) (Val, Val) {
	if a.T == untypedInt && b.T == untypedInt {
		return e.coerce(a, intT), e.coerce(b, intT)
	}
	if a.T == untypedInt || a.T == untypedNil {
		return e.coerce(a, b.T), b
	}
	if b.T == untypedInt || b.T == untypedNil {
		return a, e.coerce(b, a.T)
	}
	return a, b
}

func (e *Env) Eval(x SExpr) Val {
	switch n := x.(type) {
	case *SLit:
		switch n.Kind {
		case "bool":
			return boolVal(n.Val)
		case "int":
			return Val{T: untypedInt, S: n.Val}
		case "string":
			return Val{T: stringT, S: StrLit(n.Val)}
		case "nil":
			return Val{T: untypedNil, S: "0"}
		}
	case *SIdent:
		// a captured variable of a closure is a heap cell: its value is the one of the state the
		// expression is evaluated in (old(x) is the value on entry, x the current one)
		if cell, ok := e.x.topVars["&"+n.Name]; ok && e.cur != nil {
			if p, ok := under(cell.T).(*types.Pointer); ok {
				return e.x.heap.load(e.cur, cell, p.Elem())
			}
		}
		if v, ok := e.vars[n.Name]; ok {
			return v
		}
		if e.lookup != nil {
			if v, ok := e.lookup(n.Name); ok {
				return v
			}
		}
		if v, ok := e.x.specConst(e, n.Name); ok {
			return v
		}
		if a, ok := e.x.alias[n.Name]; ok {
			// the variable was renamed since the contract was written (see NameTable)
			if v, ok := e.vars[a]; ok {
				return v
			}
			if e.lookup != nil {
				if v, ok := e.lookup(a); ok {
					return v
				}
			}
		}
		sfail("unknown identifier %q", n.Name)
	case *SUnary:
		v := e.Eval(n.X)
		switch n.Op {
		case "!":
			return boolVal(Not(v.S))
		case "-":
			if v.T == untypedInt {
				return Val{T: untypedInt, S: "-" + v.S}
			}
			if e.vc().BV {
				return Val{T: v.T, S: app("bvneg", v.S)}
			}
			return Val{T: v.T, S: app("-", v.S)}
		case "^":
			return Val{T: v.T, S: e.x.bitnot(v.T, v.S)}
		}
	case *SBinary:
		return e.evalBinary(n)
	case *SCond:
		c := e.EvalBool(n.C)
		a, b := e.unify(e.Eval(n.A), e.Eval(n.B))
		return e.vc().iteVal(c, a, b)
	case *SSel:
		return e.evalSel(n)
	case *SIndex:
		xv := e.Eval(n.X)
		switch u := under(xv.T).(type) {
		case *types.Map:
			k := e.coerce(e.Eval(n.I), u.Key())
			mv := e.hp().mapGet(e.cur, xv, k.S)
			e.x.noteLoadedFrom(e.cur, mv, xv.S)
			return mv
		case *types.Slice:
			if abs, ok := e.anchors[n]; ok {
				p := Val{T: types.NewPointer(u.Elem()), S: xv.Fs[0].S, P: &Ptr{Kind: ptrElem, Root: u.Elem(), Idx: abs}}
				av := e.hp().load(e.cur, p, u.Elem())
				e.x.noteLoadedFrom(e.cur, av, xv.Fs[0].S)
				return av
			}
			if e.probe != nil {
				e.probeAnchor(n, xv)
			}
			i := e.coerce(e.Eval(n.I), intT)
			ev := e.hp().load(e.cur, e.hp().elemPtr(xv, i.S), u.Elem())
			e.x.noteLoadedFrom(e.cur, ev, xv.Fs[0].S)
			return ev
		case *types.Basic:
			if isString(xv.T) {
				i := e.coerce(e.Eval(n.I), intT)
				return Val{T: types.Typ[types.Uint8], S: app("str.to_code", app("str.at", xv.S, i.S))}
			}
		case *types.Array:
			i := e.coerce(e.Eval(n.I), intT)
			return Val{T: u.Elem(), S: Select(xv.S, i.S)}
		}
		sfail("cannot index %s", xv.T)
	case *SSlice:
		xv := e.Eval(n.X)
		if isString(xv.T) {
			lo := "0"
			if n.Lo != nil {
				lo = e.coerce(e.Eval(n.Lo), intT).S
			}
			hi := app("str.len", xv.S)
			if n.Hi != nil {
				hi = e.coerce(e.Eval(n.Hi), intT).S
			}
			return Val{T: stringT, S: app("str.substr", xv.S, lo, app("-", hi, lo))}
		}
		sfail("slice expression on %s not supported in specs", xv.T)
	case *SCall:
		return e.evalCall(n)
	case *SQuant:
		return e.evalQuant(n)
	case *SLet:
		v := e.Eval(n.X)
		return e.with(n.Name, v).Eval(n.Body)
	}
	sfail("cannot evaluate %T", x)
	return Val{}
}

func (e *Env) evalBinary(n *SBinary) Val {
	switch n.Op {
	case "&&":
		return boolVal(And(e.EvalBool(n.X), e.EvalBool(n.Y)))
	case "||":
		return boolVal(Or(e.EvalBool(n.X), e.EvalBool(n.Y)))
	case "==>":
		return boolVal(Implies(e.EvalBool(n.X), e.EvalBool(n.Y)))
	case "<==>":
		return boolVal(Eq(e.EvalBool(n.X), e.EvalBool(n.Y)))
	}
	a, b := e.unify(e.Eval(n.X), e.Eval(n.Y))
	if (n.Op == "+" || n.Op == "-") && !e.vc().BV && isInteger(a.T) {
		// constant folding (the compiler does the same for constant expressions)
		x, err1 := strconv.ParseInt(a.S, 10, 64)
		y, err2 := strconv.ParseInt(b.S, 10, 64)
		if err1 == nil && err2 == nil {
			if n.Op == "+" {
				return Val{T: a.T, S: IntLit(x + y)}
			}
			return Val{T: a.T, S: IntLit(x - y)}
		}
	}
	if n.Op == "+" && isString(a.T) {
		return Val{T: a.T, S: app("str.++", a.S, b.S)}
	}
	bv := e.vc().BV && isInteger(a.T)
	uns := isUnsigned(a.T)
	switch n.Op {
	case "==":
		return boolVal(e.vc().eqVal(a, b))
	case "!=":
		return boolVal(Not(e.vc().eqVal(a, b)))
	case "<", "<=", ">", ">=":
		if isString(a.T) {
			switch n.Op {
			case "<":
				return boolVal(app("str.<", a.S, b.S))
			case "<=":
				return boolVal(app("str.<=", a.S, b.S))
			case ">":
				return boolVal(app("str.<", b.S, a.S))
			default:
				return boolVal(app("str.<=", b.S, a.S))
			}
		}
		if bv {
			op := map[string]string{"<": "bvslt", "<=": "bvsle", ">": "bvsgt", ">=": "bvsge"}[n.Op]
			if uns {
				op = map[string]string{"<": "bvult", "<=": "bvule", ">": "bvugt", ">=": "bvuge"}[n.Op]
			}
			return boolVal(app(op, a.S, b.S))
		}
		return boolVal(app(n.Op, a.S, b.S))
	case "+":
		if isString(a.T) {
			return Val{T: a.T, S: app("str.++", a.S, b.S)}
		}
		if bv {
			return Val{T: a.T, S: app("bvadd", a.S, b.S)}
		}
		return Val{T: a.T, S: app("+", a.S, b.S)}
	case "-":
		if bv {
			return Val{T: a.T, S: app("bvsub", a.S, b.S)}
		}
		return Val{T: a.T, S: app("-", a.S, b.S)}
	case "*":
		if bv {
			return Val{T: a.T, S: app("bvmul", a.S, b.S)}
		}
		return Val{T: a.T, S: app("*", a.S, b.S)}
	case "/":
		if bv {
			if uns {
				return Val{T: a.T, S: app("bvudiv", a.S, b.S)}
			}
			return Val{T: a.T, S: app("bvsdiv", a.S, b.S)}
		}
		if b2, ok := under(a.T).(*types.Basic); ok && b2.Info()&types.IsFloat != 0 {
			return Val{T: a.T, S: app("/", a.S, b.S)}
		}
		return Val{T: a.T, S: goDiv(a.S, b.S)}
	case "%":
		if bv {
			if uns {
				return Val{T: a.T, S: app("bvurem", a.S, b.S)}
			}
			return Val{T: a.T, S: app("bvsrem", a.S, b.S)}
		}
		return Val{T: a.T, S: goRem(a.S, b.S)}
	case "&", "|", "^", "<<", ">>", "&^":
		return Val{T: a.T, S: e.x.bitop(n.Op, a.T, a.S, b.S)}
	}
	sfail("unknown operator %s", n.Op)
	return Val{}
}

func goDiv(a, b string) string {
	// truncated division
	return Ite(app(">=", a, "0"),
		Ite(app(">", b, "0"), app("div", a, b), app("-", app("div", a, app("-", b)))),
		Ite(app(">", b, "0"), app("-", app("div", app("-", a), b)), app("div", app("-", a), app("-", b))))
}

func goRem(a, b string) string {
	return app("-", a, app("*", b, goDiv(a, b)))
}

// findField finds a (possibly promoted) field; returns path components.
func findField(t types.Type, name string) ([]int, types.Type, bool) {
	st, ok := under(t).(*types.Struct)
	if !ok {
		return nil, nil, false
	}
	for i := 0; i < st.NumFields(); i++ {
		if st.Field(i).Name() == name {
			return []int{i}, st.Field(i).Type(), true
		}
	}
	for i := 0; i < st.NumFields(); i++ {
		f := st.Field(i)
		if f.Embedded() {
			ft := f.Type()
			if p, ok := under(ft).(*types.Pointer); ok {
				_ = p
				continue
			}
			if path, t2, ok := findField(ft, name); ok {
				return append([]int{i}, path...), t2, true
			}
		}
	}
	return nil, nil, false
}

func (e *Env) evalSel(n *SSel) Val {
	// pkg.Const
	if id, ok := n.X.(*SIdent); ok && e.pkg != nil {
		if _, isVar := e.vars[id.Name]; !isVar {
			if ip := e.x.prog.importsOf(e.pkg)[id.Name]; ip != nil {
				if obj := ip.Scope().Lookup(n.Name); obj != nil {
					switch o := obj.(type) {
					case *types.Const:
						return e.x.constVal(o.Type(), o.Val())
					case *types.Var:
						// package-level variable: read the global
						sp := e.x.prog.SSA.Package(ip)
						if sp != nil {
							if g, ok := sp.Members[n.Name].(*ssa.Global); ok {
								pv := Val{T: g.Type(), S: "1", P: &Ptr{Kind: ptrGlobal, Root: g.Type().(*types.Pointer).Elem(), Global: ip.Name() + "." + g.Name()}}
								return e.hp().load(e.cur, pv, g.Type().(*types.Pointer).Elem())
							}
						}
					}
				}
			}
		}
	}
	// result.0 / result.1
	xv := e.Eval(n.X)
	if _, err := strconv.Atoi(n.Name); err == nil {
		i, _ := strconv.Atoi(n.Name)
		if _, ok := under(xv.T).(*types.Tuple); ok {
			if i >= len(xv.Fs) {
				sfail("tuple index %d out of range", i)
			}
			return xv.Fs[i]
		}
		if i == 0 {
			return xv
		}
		sfail("numeric selector on non-tuple %s", xv.T)
	}
	return e.selField(xv, n.Name)
}

func (e *Env) selField(xv Val, name string) Val {
	if p, ok := under(xv.T).(*types.Pointer); ok {
		path, ft, ok := findField(p.Elem(), name)
		if !ok {
			sfail("type %s has no field %s", p.Elem(), name)
		}
		if xv.P == nil {
			xv.P = &Ptr{Kind: ptrObj, Root: p.Elem()}
		}
		fp := e.x.fieldAddrPath(xv, p.Elem(), path)
		lv := e.hp().load(e.cur, fp, ft)
		e.x.noteLoadedFrom(e.cur, lv, xv.S)
		return lv
	}
	if st, ok := under(xv.T).(*types.Struct); ok {
		for i := 0; i < st.NumFields(); i++ {
			if st.Field(i).Name() == name {
				return xv.Fs[i]
			}
		}
		for i := 0; i < st.NumFields(); i++ {
			if st.Field(i).Embedded() {
				if _, _, ok := findField(st.Field(i).Type(), name); ok {
					return e.selField(xv.Fs[i], name)
				}
			}
		}
	}
	sfail("cannot select .%s on %s", name, xv.T)
	return Val{}
}

func (e *Env) evalCall(n *SCall) Val {
	h := e.hp()
	arg := func(i int) Val {
		if i >= len(n.Args) {
			sfail("%s: missing argument %d", n.Fun, i)
		}
		return e.Eval(n.Args[i])
	}
	switch n.Fun {
	case "old":
		if e.old == nil {
			sfail("old() not available here")
		}
		return e.inState(e.old).Eval(n.Args[0])
	case "pre":
		if e.pre == nil {
			sfail("pre() only valid in loop invariants")
		}
		return e.inState(e.pre).Eval(n.Args[0])
	case "len":
		v := arg(0)
		switch under(v.T).(type) {
		case *types.Map:
			return Val{T: intT, S: h.mapLen(e.cur, v)}
		case *types.Slice:
			return Val{T: intT, S: v.Fs[2].S}
		case *types.Basic:
			return Val{T: intT, S: app("str.len", v.S)}
		}
		sfail("len of %s", v.T)
	case "cap":
		v := arg(0)
		return Val{T: intT, S: v.Fs[3].S}
	case "base":
		// base(s): reference of the backing array of slice s (0 for a nil slice)
		v := arg(0)
		if _, ok := under(v.T).(*types.Slice); !ok {
			sfail("base: not a slice")
		}
		return Val{T: intT, S: v.Fs[0].S}
	case "off":
		v := arg(0)
		return Val{T: intT, S: v.Fs[1].S}
	case "has":
		m := arg(0)
		mt, ok := under(m.T).(*types.Map)
		if !ok {
			sfail("has: not a map: %s", m.T)
		}
		k := e.coerce(arg(1), mt.Key())
		return boolVal(h.mapHas(e.cur, m, k.S))
	case "fresh":
		v := arg(0)
		if e.old == nil {
			sfail("fresh() needs an old state")
		}
		ref := v.S
		if _, ok := under(v.T).(*types.Slice); ok {
			ref = v.Fs[0].S
		}
		return boolVal(And(app(">=", ref, h.alloc(e.old)), app("<", ref, h.alloc(e.cur))))
	case "bound":
		// bound(recv, "Iface.Method"): the method value recv.Method of an interface value
		// (same uninterpreted constructor the engine uses for `x.Method` in the code)
		recv := arg(0)
		lit := e.strArg(n, 1)
		k := strings.LastIndex(lit, ".")
		it := e.x.resolveType(lit[:k], e.pkg)
		name := "(" + types.TypeString(it, nil) + ")." + lit[k+1:] + "$bound"
		var args, sorts []string
		eachLeaf(recv, "", func(p string, lv Val) { args = append(args, lv.S); sorts = append(sorts, e.vc().sortOf(lv.T)) })
		bf := e.vc().Fun("bound:"+name, sorts, "Int")
		return Val{T: types.NewSignatureType(nil, nil, nil, nil, nil, false), S: app(bf, args...)}
	case "implements":
		// implements(v, "Iface"): the dynamic type of interface value v implements Iface
		v := arg(0)
		it := e.x.resolveType(e.strArg(n, 1), e.pkg)
		return boolVal(e.x.implements(v.Fs[0].S, it))
	case "chancap":
		v := arg(0)
		return Val{T: intT, S: Select(h.get(e.cur, chanKey("cap", v.T), "(Array Int Int)"), v.S)}
	case "chanclosed":
		v := arg(0)
		return boolVal(e.x.chanClosed(e.cur, v))
	case "hasdeadline":
		// hasdeadline(ctx): ctx was derived by context.WithTimeout (ghost typestate)
		v := arg(0)
		return boolVal(Select(h.get(e.cur, "X:ctx:deadline", "(Array Int Bool)"), v.Fs[1].S))
	case "entry":
		// entry(x): the value the loop-carried local variable x had when the loop was entered
		id, ok := n.Args[0].(*SIdent)
		if !ok || e.entryOf == nil {
			sfail("entry(x): x must be a local variable, in a loop invariant")
		}
		name := id.Name
		if a, ok := e.x.alias[name]; ok {
			name = a
		}
		v, ok := e.entryOf(name)
		if !ok {
			sfail("entry(%s): not a loop-carried variable of this loop", id.Name)
		}
		return v
	case "prefresh":
		// allocated since the entry of the enclosing loop
		v := arg(0)
		if e.pre == nil {
			sfail("prefresh() only valid in loop invariants")
		}
		ref := v.S
		if _, ok := under(v.T).(*types.Slice); ok {
			ref = v.Fs[0].S
		}
		return boolVal(And(app(">=", ref, h.alloc(e.pre)), app("<", ref, h.alloc(e.cur))))
	case "toupper", "tolower", "trimspace":
		// the uninterpreted functions the models of strings.ToUpper/ToLower/TrimSpace use
		nm := map[string]string{"toupper": "strings.ToUpper", "tolower": "strings.ToLower", "trimspace": "strings.TrimSpace"}[n.Fun]
		fn := e.vc().Fun("fn:"+nm, []string{"String"}, "String")
		return Val{T: stringT, S: app(fn, arg(0).S)}
	case "strcount":
		// strings.Count(s, sep), the uninterpreted function its model uses
		fn := e.vc().Fun("fn:strings.Count", []string{"String", "String"}, "Int")
		return Val{T: intT, S: app(fn, arg(0).S, arg(1).S)}
	case "pathjoin2", "pathjoin3":
		fn := e.vc().Fun("fn:filepath.Join", []string{"Int", "String", "String", "String"}, "String")
		if n.Fun == "pathjoin2" {
			return Val{T: stringT, S: app(fn, "2", arg(0).S, arg(1).S, StrLit(""))}
		}
		return Val{T: stringT, S: app(fn, "3", arg(0).S, arg(1).S, arg(2).S)}
	case "pathclean":
		fn := e.vc().Fun("fn:filepath.Clean", []string{"String"}, "String")
		return Val{T: stringT, S: app(fn, arg(0).S)}
	case "trimprefix":
		// strings.TrimPrefix(s, p), as in its model
		sv, pv := arg(0).S, arg(1).S
		return Val{T: stringT, S: Ite(app("str.prefixof", pv, sv), app("str.substr", sv, app("str.len", pv), app("-", app("str.len", sv), app("str.len", pv))), sv)}
	case "strof":
		// strof(b): the string the byte slice b was converted from ([]byte(s)); ghost
		v := arg(0)
		if _, ok := under(v.T).(*types.Slice); !ok {
			sfail("strof: not a slice")
		}
		return Val{T: stringT, S: Select(h.get(e.cur, bytesOfKey, "(Array Int String)"), v.Fs[0].S)}
	case "allocated":
		v := arg(0)
		return boolVal(And(app(">", v.S, "0"), app("<", v.S, h.alloc(e.cur))))
	case "zeroed":
		v := arg(0)
		p, ok := under(v.T).(*types.Pointer)
		if !ok {
			sfail("zeroed: not a pointer")
		}
		if v.P == nil {
			v.P = &Ptr{Kind: ptrObj, Root: p.Elem()}
		}
		got := h.load(e.cur, v, p.Elem())
		return boolVal(e.vc().eqVal(got, e.vc().zeroVal(p.Elem())))
	case "zeroedexcept":
		v := arg(0)
		p, ok := under(v.T).(*types.Pointer)
		if !ok {
			sfail("zeroedexcept: not a pointer")
		}
		if v.P == nil {
			v.P = &Ptr{Kind: ptrObj, Root: p.Elem()}
		}
		skip := map[string]bool{}
		for i := 1; i < len(n.Args); i++ {
			skip[e.strArg(n, i)] = true
		}
		got := h.load(e.cur, v, p.Elem())
		var cs []string
		eachLeaf(got, "", func(path string, lv Val) {
			top := path
			if k := strings.IndexAny(path, ".#"); k >= 0 {
				top = path[:k]
			}
			if skip[top] {
				return
			}
			cs = append(cs, Eq(lv.S, e.vc().zeroScalar(lv.T)))
		})
		return boolVal(And(cs...))
	case "isnil":
		v := arg(0)
		return boolVal(e.x.isNil(v))
	case "typeis":
		v := arg(0)
		lit, ok := n.Args[1].(*SLit)
		if !ok || lit.Kind != "string" {
			sfail("typeis: second argument must be a type string")
		}
		t := e.x.resolveType(lit.Val, e.pkg)
		return boolVal(Eq(v.Fs[0].S, IntLit(int64(e.x.typeTag(t)))))
	case "ifaceval":
		// ifaceval(v, "T"): the payload of interface v viewed as T (pointer/ref types)
		v := arg(0)
		lit := n.Args[1].(*SLit)
		t := e.x.resolveType(lit.Val, e.pkg)
		return e.x.unbox(v, t)
	case "deref":
		v := arg(0)
		pt, ok := under(v.T).(*types.Pointer)
		if !ok {
			sfail("deref: not a pointer")
		}
		if v.P == nil {
			v.P = &Ptr{Kind: ptrObj, Root: pt.Elem()}
		}
		lv := h.load(e.cur, v, pt.Elem())
		e.x.noteLoaded(e.cur, lv)
		return lv
	case "prefixof":
		return boolVal(app("str.prefixof", arg(0).S, arg(1).S))
	case "suffixof":
		return boolVal(app("str.suffixof", arg(0).S, arg(1).S))
	case "contains":
		return boolVal(app("str.contains", arg(0).S, arg(1).S))
	case "substr":
		return Val{T: stringT, S: app("str.substr", arg(0).S, e.coerce(arg(1), intT).S, e.coerce(arg(2), intT).S)}
	case "indexof":
		return Val{T: intT, S: app("str.indexof", arg(0).S, arg(1).S, "0")}
	case "visited":
		if e.visited == nil {
			sfail("visited() only valid in a map-range loop invariant")
		}
		k := arg(0)
		t, ok := e.visited(k.S)
		if !ok {
			sfail("visited(): no iterator")
		}
		return boolVal(t)
	case "ncalls":
		cls := e.strArg(n, 0)
		return Val{T: intT, S: e.x.ghostCallCount(e.cur, cls)}
	case "callarg", "callret":
		cls := e.strArg(n, 0)
		j := e.intArg(n, 2)
		if abs, ok := e.anchorsC[n]; ok {
			return e.x.ghostCallSlot(e.cur, cls, n.Fun == "callret", j, abs)
		}
		if e.probe != nil {
			e.probeAnchorCall(n)
		}
		i := e.coerce(arg(1), intT)
		return e.x.ghostCallSlot(e.cur, cls, n.Fun == "callret", j, i.S)
	case "callseq":
		cls := e.strArg(n, 0)
		i := e.coerce(arg(1), intT)
		return Val{T: intT, S: e.x.ghostCallSeq(e.cur, cls, i.S)}
	case "held", "rheld", "epoch", "done":
		loc := e.lockLoc(n.Args[0])
		return e.x.ghostLock(e.cur, n.Fun, loc)
	case "ghost":
		name := e.strArg(n, 0)
		return e.x.ghostVar(e.cur, name)
	case "int":
		v := arg(0)
		return e.coerce(v, intT)
	case "int32", "int64", "uint32", "uint64", "uint8", "int8", "int16", "uint16":
		v := arg(0)
		var tt types.Type
		for _, b := range types.Typ {
			if b.Name() == n.Fun {
				tt = b
			}
		}
		if v.T == untypedInt {
			return e.coerce(v, tt)
		}
		if !isInteger(v.T) {
			sfail("%s(): not an integer", n.Fun)
		}
		return Val{T: tt, S: e.x.convert(nil, v, v.T, tt, nil).S}
	case "bit":
		// bit(mask, n): is bit n (0-based) set — consistent with Exec.bitop encoding
		m := arg(0)
		k := e.coerce(arg(1), m.T)
		one := e.coerce(Val{T: untypedInt, S: "1"}, m.T)
		sh := e.x.bitop("<<", m.T, one.S, k.S)
		if n, err := strconv.ParseInt(k.S, 10, 64); err == nil && n >= 0 && n < 63 && !e.vc().BV {
			// constant bit: the compiler folds 1<<k, so the code tests against the literal mask
			sh = IntLit(int64(1) << uint(n))
		}
		and := e.x.bitop("&", m.T, m.S, sh)
		return boolVal(Not(Eq(and, e.coerce(Val{T: untypedInt, S: "0"}, m.T).S)))
	}
	if strings.HasPrefix(n.Fun, ".") {
		// method-style call: inline a real (loop-free) Go method as a pure function
		recv := arg(0)
		var args []Val
		for i := 1; i < len(n.Args); i++ {
			args = append(args, e.Eval(n.Args[i]))
		}
		return e.x.pureMethodCall(e, recv, n.Fun[1:], args)
	}
	if pf, ok := e.x.prog.Pures[pureKey(e.pkg, n.Fun)]; ok {
		return e.callPure(pf, n)
	}
	if pf, ok := e.x.prog.Pures[n.Fun]; ok {
		return e.callPure(pf, n)
	}
	// real Go function used as a pure function
	if v, ok := e.x.pureFuncCall(e, n); ok {
		return v
	}
	sfail("unknown spec function %q", n.Fun)
	return Val{}
}

func (e *Env) callPure(pf *PureFunc, n *SCall) Val {
	if e.depth > 40 {
		sfail("pure function recursion too deep (%s)", pf.Name)
	}
	if len(n.Args) != len(pf.Params) {
		sfail("%s: expected %d arguments, got %d", pf.Name, len(pf.Params), len(n.Args))
	}
	env := *e
	env.depth++
	env.vars = make(map[string]Val, len(pf.Params))
	env.lookup = nil
	env.pkg = pf.Pkg
	var key strings.Builder
	key.WriteString(pf.Name)
	for i, p := range pf.Params {
		v := e.Eval(n.Args[i])
		if p.Type != "" {
			t := e.x.resolveType(p.Type, pf.Pkg)
			v = e.coerce(v, t)
		}
		env.vars[p.Name] = v
		eachLeaf(v, "", func(path string, lv Val) { key.WriteString("|" + lv.S) })
	}
	// applications evaluated in the (immutable) entry state are memoised, so that the
	// same closed formula is literally the same SMT term wherever it occurs
	memo := len(e.cur.heap) == 0 && len(e.x.qsyms) == 0
	if memo {
		if v, ok := e.x.pureMemo[key.String()]; ok {
			return v
		}
	}
	res := env.Eval(pf.Body)
	if memo {
		res = e.x.nameVal("pure."+pf.Name, res)
		if e.x.pureMemo == nil {
			e.x.pureMemo = map[string]Val{}
		}
		e.x.pureMemo[key.String()] = res
	}
	return res
}

func (e *Env) strArg(n *SCall, i int) string {
	if i >= len(n.Args) {
		sfail("%s: missing argument", n.Fun)
	}
	lit, ok := n.Args[i].(*SLit)
	if !ok || lit.Kind != "string" {
		sfail("%s: argument %d must be a string literal", n.Fun, i)
	}
	return lit.Val
}

func (e *Env) intArg(n *SCall, i int) int {
	lit, ok := n.Args[i].(*SLit)
	if !ok || lit.Kind != "int" {
		sfail("%s: argument %d must be an integer literal", n.Fun, i)
	}
	v, _ := strconv.Atoi(lit.Val)
	return v
}

// lockLoc evaluates an expression denoting a lock embedded in an object:
// x.f (field f of *x being a sync.Mutex etc.) => (base ref term, key).
func (e *Env) lockLoc(x SExpr) lockLoc {
	if c, ok := x.(*SCall); ok && c.Fun == "global" {
		// held(global("pkg.name")): a package-level lock
		return lockLoc{Base: "1", Key: "global:" + e.strArg(c, 0) + ":"}
	}
	sel, ok := x.(*SSel)
	if !ok {
		// a bare pointer to an object that embeds the lock by promotion
		v := e.Eval(x)
		if p, ok := under(v.T).(*types.Pointer); ok {
			return lockLoc{Base: v.S, Key: typeKey(p.Elem())}
		}
		sfail("lock location must be a field selection")
	}
	base := e.Eval(sel.X)
	p, ok := under(base.T).(*types.Pointer)
	if !ok {
		sfail("lock location: base is not a pointer")
	}
	path, _, ok := findField(p.Elem(), sel.Name)
	if !ok {
		sfail("lock location: no field %s", sel.Name)
	}
	fp := e.x.fieldAddrPath(Val{T: base.T, S: base.S, P: orPtr(base.P, p.Elem())}, p.Elem(), path)
	return lockLoc{Base: fp.S, Key: typeKey(fp.P.Root) + ":" + fp.P.Path}
}

func orPtr(p *Ptr, root types.Type) *Ptr {
	if p != nil {
		return p
	}
	return &Ptr{Kind: ptrObj, Root: root}
}

type lockLoc struct {
	Base string
	Key  string
}

// constVal converts a Go constant to a Val.
func (x *Exec) constVal(t types.Type, c constant.Value) Val {
	vc := x.vc
	if c == nil {
		return vc.zeroVal(t)
	}
	switch under(t).(type) {
	case *types.Interface:
		sfail("constant of interface type")
	}
	b, ok := under(t).(*types.Basic)
	if !ok {
		return vc.zeroVal(t)
	}
	switch {
	case b.Info()&types.IsBoolean != 0:
		if constant.BoolVal(c) {
			return Val{T: t, S: "true"}
		}
		return Val{T: t, S: "false"}
	case b.Info()&types.IsString != 0:
		return Val{T: t, S: StrLit(constant.StringVal(c))}
	case b.Info()&types.IsInteger != 0:
		if i, ok := constant.Int64Val(constant.ToInt(c)); ok {
			return Val{T: t, S: vc.intLit(t, i)}
		}
		u, _ := constant.Uint64Val(constant.ToInt(c))
		if vc.BV {
			return Val{T: t, S: vc.intLit(t, int64(u))}
		}
		return Val{T: t, S: fmt.Sprintf("%d", u)}
	case b.Info()&types.IsFloat != 0:
		f, _ := constant.Float64Val(c)
		s := strconv.FormatFloat(f, 'f', -1, 64)
		if !strings.Contains(s, ".") {
			s += ".0"
		}
		if f < 0 {
			s = "(- " + s[1:] + ")"
		}
		return Val{T: t, S: s}
	}
	return vc.zeroVal(t)
}

// evalQuant evaluates a quantifier.  Integer variables that index a slice (s[i],
// s[i+e], s[e+i]) are re-expressed over the absolute position j = off(s)+e+i, so
// that the instantiation trigger is select(arr, j) without arithmetic (solvers do
// not match triggers like select(arr, off+i) reliably).
func (e *Env) evalQuant(n *SQuant) Val {
	type qv struct {
		name string
		t    types.Type
		symb string
	}
	var vars []qv
	for _, v := range n.Vars {
		t := e.x.resolveType(v.Type, e.pkg)
		if !isScalar(t) {
			sfail("quantified variable %s must have scalar type", v.Name)
		}
		// deterministic names (by nesting depth): the same clause evaluated twice in the
		// same state yields the same term text
		vars = append(vars, qv{v.Name, t, sym(fmt.Sprintf("q_%s.%d", v.Name, len(e.x.qsyms)+len(vars)))})
	}
	var anchorsC map[*SCall]string
	bind := func(shift map[string]string, anchors map[*SIndex]string, probe *anchorProbe) (string, []string) {
		env := *e
		env.vars = make(map[string]Val, len(e.vars)+len(vars))
		for k, x := range e.vars {
			env.vars[k] = x
		}
		env.probe = probe
		env.anchors = map[*SIndex]string{}
		for k, a := range e.anchors {
			env.anchors[k] = a
		}
		for k, a := range anchors {
			env.anchors[k] = a
		}
		env.anchorsC = map[*SCall]string{}
		for k, a := range e.anchorsC {
			env.anchorsC[k] = a
		}
		for k, a := range anchorsC {
			env.anchorsC[k] = a
		}
		var guards []string
		for _, v := range vars {
			val := Val{T: v.t, S: v.symb}
			if sh, ok := shift[v.name]; ok {
				val.S = app("-", v.symb, sh)
			}
			if p, ok := under(v.t).(*types.Pointer); ok {
				val.P = &Ptr{Kind: ptrObj, Root: p.Elem()}
				guards = append(guards, And(app("<", "0", v.symb), app("<", v.symb, e.hp().alloc(e.cur))))
			}
			if isUnsigned(v.t) && !e.vc().BV {
				guards = append(guards, app("<=", "0", val.S))
			}
			env.vars[v.name] = val
		}
		return env.EvalBool(n.Body), guards
	}
	for _, v := range vars {
		e.x.qsyms = append(e.x.qsyms, v.symb)
		e.vc().Bound = append(e.vc().Bound, v.symb)
	}
	defer func() {
		e.x.qsyms = e.x.qsyms[:len(e.x.qsyms)-len(vars)]
		e.vc().Bound = e.vc().Bound[:len(e.vc().Bound)-len(vars)]
	}()
	// pass 1: probe for anchors
	probe := &anchorProbe{outer: e.probe, vars: map[string]string{}, found: map[string]*SIndex{}, foundC: map[string]*SCall{}, shift: map[string]string{}}
	for _, v := range vars {
		if isInteger(v.t) && !e.vc().BV {
			probe.vars[v.name] = v.symb
		}
	}
	qp0 := len(e.x.qpending)
	body, guards := bind(nil, nil, probe)
	if len(probe.found) > 0 || len(probe.foundC) > 0 {
		e.x.qpending = e.x.qpending[:qp0]
		anchors := map[*SIndex]string{}
		for name, node := range probe.found {
			anchors[node] = probe.vars[name]
		}
		anchorsC = map[*SCall]string{}
		for name, node := range probe.foundC {
			anchorsC[node] = probe.vars[name]
		}
		body, guards = bind(probe.shift, anchors, nil)
	}
	var binders []string
	for _, v := range vars {
		binders = append(binders, "("+v.symb+" "+e.vc().sortOf(v.t)+")")
	}
	// type facts of the loads made under this quantifier: close those that mention only its
	// variables, pass the others on to the enclosing quantifier
	if len(e.x.qpending) > qp0 {
		mine := append([]string{}, e.x.qpending[qp0:]...)
		e.x.qpending = e.x.qpending[:qp0]
		outer := e.x.qsyms[:len(e.x.qsyms)-len(vars)]
		seen := map[string]bool{}
		for _, fct := range mine {
			if seen[fct] {
				continue
			}
			seen[fct] = true
			closed := "(forall (" + strings.Join(binders, " ") + ") " + Implies(And(guards...), fct) + ")"
			isOuter := false
			for _, o := range outer {
				if strings.Contains(closed, o) {
					isOuter = true
				}
			}
			if isOuter {
				e.x.qpending = append(e.x.qpending, closed)
			} else {
				e.x.addPending(closed)
			}
		}
	}
	q := "forall"
	if !n.Forall {
		q = "exists"
		body = And(append(guards, body)...)
	} else {
		body = Implies(And(guards...), body)
	}
	return boolVal("(" + q + " (" + strings.Join(binders, " ") + ") " + body + ")")
}

// probeAnchor records s[i] / s[i+e] / s[e+i] / s[i-e] (i bound, e free of bound variables).
func (e *Env) probeAnchor(n *SIndex, xv Val) {
	for pr := e.probe; pr != nil; pr = pr.outer {
		e.probeAnchor1(pr, n, xv)
	}
}

func (e *Env) probeAnchor1(pr *anchorProbe, n *SIndex, xv Val) {
	var vname string
	var extra SExpr
	neg := false
	switch ix := n.I.(type) {
	case *SIdent:
		vname = ix.Name
	case *SBinary:
		if ix.Op == "+" || ix.Op == "-" {
			if id, ok := ix.X.(*SIdent); ok {
				if _, isVar := pr.vars[id.Name]; isVar {
					vname, extra, neg = id.Name, ix.Y, ix.Op == "-"
				}
			}
			if vname == "" && ix.Op == "+" {
				if id, ok := ix.Y.(*SIdent); ok {
					if _, isVar := pr.vars[id.Name]; isVar {
						vname, extra = id.Name, ix.X
					}
				}
			}
		}
	}
	if vname == "" {
		return
	}
	if _, isVar := pr.vars[vname]; !isVar {
		return
	}
	if _, done := pr.found[vname]; done {
		return
	}
	if _, done := pr.foundC[vname]; done {
		return
	}
	// the variable must be bound by *this* quantifier and not shadowed
	if cur, ok := e.vars[vname]; !ok || cur.S != pr.vars[vname] {
		return
	}
	shift := xv.Fs[1].S
	if extra != nil {
		ev := e.coerce(e.Eval(extra), intT)
		if neg {
			shift = app("-", shift, ev.S)
		} else {
			shift = app("+", shift, ev.S)
		}
	}
	for _, symb := range pr.vars {
		if strings.Contains(shift, symb) || strings.Contains(xv.Fs[0].S, symb) {
			return
		}
	}
	pr.found[vname] = n
	pr.shift[vname] = shift
}

// probeAnchorCall: callarg/callret(cls, e + i, j) with i bound: re-express over k = e + i.
func (e *Env) probeAnchorCall(n *SCall) {
	for pr := e.probe; pr != nil; pr = pr.outer {
		e.probeAnchorCall1(pr, n)
	}
}

func (e *Env) probeAnchorCall1(pr *anchorProbe, n *SCall) {
	ix, ok := n.Args[1].(*SBinary)
	if !ok || ix.Op != "+" {
		return
	}
	var vname string
	var extra SExpr
	if id, ok := ix.Y.(*SIdent); ok {
		if _, isVar := pr.vars[id.Name]; isVar {
			vname, extra = id.Name, ix.X
		}
	}
	if vname == "" {
		if id, ok := ix.X.(*SIdent); ok {
			if _, isVar := pr.vars[id.Name]; isVar {
				vname, extra = id.Name, ix.Y
			}
		}
	}
	if vname == "" {
		return
	}
	if _, done := pr.found[vname]; done {
		return
	}
	if _, done := pr.foundC[vname]; done {
		return
	}
	if cur, ok := e.vars[vname]; !ok || cur.S != pr.vars[vname] {
		return
	}
	ev := e.coerce(e.Eval(extra), intT)
	for _, symb := range pr.vars {
		if strings.Contains(ev.S, symb) {
			return
		}
	}
	pr.foundC[vname] = n
	pr.shift[vname] = ev.S
}
