package engine

import (
	"fmt"
	"regexp"
	"sort"
	"strings"
)

// VC accumulates the SMT-LIB text for one verification unit (one function under
// contract, or one lemma): declarations, definitional facts and the list of
// obligations.  Terms are plain s-expression strings.
type decl struct {
	sym   string // symbol declared/defined ("" for facts)
	owner string // for facts: the symbol whose presence in a query makes the fact relevant ("" = always)
	text  string
}

type VC struct {
	Unit   string
	decls  []decl
	seen   map[string]bool
	n      int
	Obls   []*Obligation
	BV     bool // bit-vector mode: sized integers are bit-vectors
	Notes  []string
	Assume map[string]bool // assumptions used (for evidence)
	defs     map[string]string
	Bound    []string // symbols of quantifier variables currently in scope
	idx      *vcIndex
	idxN     int
	Deferred int            // clauses marked @thorough that were skipped in the quick tier
}

// Obligation is one proof obligation: under Hyp (reachability / path condition)
// Goal must hold.  Facts of the VC are global.
type Obligation struct {
	Name   string // stable name: <unit>#<kind>...
	Kind   string // ensures, pre, inv.init, inv.step, safety, frame, decreases, lemma, cover
	Desc   string // human description incl. source position
	Hyp    string
	Goal   string
	Cover  bool // a cover obligation: expected SAT (reachability / non-vacuity)
	Props  []string
	Pos    string
	Abstr  bool // the path crosses a havocked (unknown) call
	KF     string // id of known finding this obligation is expected to FAIL for ("" = none)
	Status string // unsat (discharged), sat, unknown, timeout
	Solver string
	TimeS  float64
	Model  string
	Bounded bool
	Cached  bool // answer taken from the query cache (identical query text answered earlier)
	NoAssume bool  // the goal was not added to the hypothesis of the obligations after it
	Group   string // obligations asserted back to back under one hypothesis (e.g. all join invariants at one join): tried as one conjunction first
}

func NewVC(unit string) *VC {
	return &VC{Unit: unit, seen: map[string]bool{}, Assume: map[string]bool{}}
}

func (vc *VC) fresh(prefix string) string {
	vc.n++
	return fmt.Sprintf("%s!%d", sanitize(prefix), vc.n)
}

func sanitize(s string) string {
	var b strings.Builder
	for _, r := range s {
		switch {
		case r >= 'a' && r <= 'z', r >= 'A' && r <= 'Z', r >= '0' && r <= '9', r == '_', r == '.', r == '$', r == '#':
			b.WriteRune(r)
		default:
			b.WriteByte('_')
		}
	}
	return b.String()
}

// sym quotes an arbitrary string as an SMT symbol.
func sym(s string) string {
	s = strings.ReplaceAll(s, "|", "!")
	s = strings.ReplaceAll(s, "\\", "!")
	return "|" + s + "|"
}

// Declare a fresh constant of the given sort and return its name.
func (vc *VC) Const(prefix, sort string) string {
	if len(vc.Bound) > 0 && !strings.HasPrefix(prefix, "q.") {
		// a fresh constant introduced while a quantified variable is in scope would stand for
		// one value for all instances: unsound.  (Evaluations under quantifiers must be pure.)
		panic(unsupported("fresh value (" + prefix + ") needed under a quantifier: the expression is not pure"))
	}
	name := sym(vc.fresh(prefix))
	vc.decls = append(vc.decls, decl{sym: name, text: fmt.Sprintf("(declare-const %s %s)", name, sort)})
	return name
}

// Named constant declared once (idempotent).
func (vc *VC) Global(name, sort string) string {
	q := sym(name)
	if !vc.seen[q] {
		vc.seen[q] = true
		vc.decls = append(vc.decls, decl{sym: q, text: fmt.Sprintf("(declare-const %s %s)", q, sort)})
	}
	return q
}

// Uninterpreted function declared once.
func (vc *VC) Fun(name string, args []string, ret string) string {
	q := sym(name)
	if !vc.seen[q] {
		vc.seen[q] = true
		vc.decls = append(vc.decls, decl{sym: q, text: fmt.Sprintf("(declare-fun %s (%s) %s)", q, strings.Join(args, " "), ret)})
	}
	return q
}

// Def introduces a name for term (keeps later terms small).
func (vc *VC) Def(prefix, sort, term string) string {
	if isAtom(term) {
		return term
	}
	for _, b := range vc.Bound {
		if strings.Contains(term, b) {
			return term // mentions a bound variable: cannot be named by a constant
		}
	}
	// a declared constant with a defining equation, not define-fun: z3 expands define-fun
	// macros by substitution at every use, which is exponential on diamond-shaped
	// control flow (path conditions are referenced by both branches of every test)
	// hash-consing: the same term always gets the same name, so a goal that literally
	// repeats an assumed fact is a propositional conflict for the solver
	if vc.defs == nil {
		vc.defs = map[string]string{}
	}
	if n, ok := vc.defs[sort+"\x00"+term]; ok {
		return n
	}
	name := sym(vc.fresh(prefix))
	vc.decls = append(vc.decls, decl{sym: name, text: fmt.Sprintf("(declare-const %s %s)", name, sort)})
	vc.decls = append(vc.decls, decl{owner: name, text: fmt.Sprintf("(assert (= %s %s))", name, term)})
	vc.defs[sort+"\x00"+term] = name
	return name
}

// Fact asserts a globally valid fact that every query includes.
func (vc *VC) Fact(term string) {
	vc.decls = append(vc.decls, decl{text: fmt.Sprintf("(assert %s)", term)})
}

// FactFor asserts a definitional fact about symbol owner; it is included in a
// query only when owner occurs in the query's cone of influence.
func (vc *VC) FactFor(owner, term string) {
	vc.decls = append(vc.decls, decl{owner: owner, text: fmt.Sprintf("(assert %s)", term)})
}

func isAtom(t string) bool {
	if t == "" {
		return true
	}
	if t[0] == '(' {
		return false
	}
	return true
}

func (vc *VC) AddObl(o *Obligation) *Obligation {
	vc.Obls = append(vc.Obls, o)
	return o
}

func (vc *VC) Prelude() string {
	var b strings.Builder
	b.WriteString("(set-logic ALL)\n")
	for _, d := range vc.decls {
		b.WriteString(d.text)
		b.WriteByte('\n')
	}
	return b.String()
}

var symRe = regexp.MustCompile(`\|[^|]*\|`)

// index of declarations for cone-of-influence slicing
type vcIndex struct {
	bySym  map[string]int
	owned  map[string][]int
	refs   [][]string
	always []int
}

func (vc *VC) index() *vcIndex {
	if vc.idx != nil && vc.idxN == len(vc.decls) {
		return vc.idx
	}
	ix := &vcIndex{bySym: map[string]int{}, owned: map[string][]int{}, refs: make([][]string, len(vc.decls))}
	for i, d := range vc.decls {
		if d.sym != "" {
			ix.bySym[d.sym] = i
		} else if d.owner != "" {
			ix.owned[d.owner] = append(ix.owned[d.owner], i)
		} else {
			ix.always = append(ix.always, i)
		}
		ix.refs[i] = symRe.FindAllString(d.text, -1)
	}
	vc.idx, vc.idxN = ix, len(vc.decls)
	return ix
}

// Slice returns the prelude restricted to the cone of influence of the given terms.
func (vc *VC) Slice(terms ...string) string {
	ix := vc.index()
	need := make([]bool, len(vc.decls))
	var work []string
	seen := map[string]bool{}
	push := func(syms []string) {
		for _, s := range syms {
			if !seen[s] {
				seen[s] = true
				work = append(work, s)
			}
		}
	}
	for _, t := range terms {
		push(symRe.FindAllString(t, -1))
	}
	for _, i := range ix.always {
		need[i] = true
		push(ix.refs[i])
	}
	for len(work) > 0 {
		s := work[len(work)-1]
		work = work[:len(work)-1]
		if i, ok := ix.bySym[s]; ok && !need[i] {
			need[i] = true
			push(ix.refs[i])
		}
		for _, i := range ix.owned[s] {
			if !need[i] {
				need[i] = true
				push(ix.refs[i])
			}
		}
	}
	var b strings.Builder
	b.WriteString("(set-logic ALL)\n")
	for i, d := range vc.decls {
		if need[i] {
			b.WriteString(d.text)
			b.WriteByte('\n')
		}
	}
	return b.String()
}

// ---- term helpers ----

func app(f string, args ...string) string {
	return "(" + f + " " + strings.Join(args, " ") + ")"
}

func And(xs ...string) string {
	var ys []string
	for _, x := range xs {
		if x == "true" || x == "" {
			continue
		}
		if x == "false" {
			return "false"
		}
		ys = append(ys, x)
	}
	switch len(ys) {
	case 0:
		return "true"
	case 1:
		return ys[0]
	}
	return "(and " + strings.Join(ys, " ") + ")"
}

func Or(xs ...string) string {
	var ys []string
	for _, x := range xs {
		if x == "false" || x == "" {
			continue
		}
		if x == "true" {
			return "true"
		}
		ys = append(ys, x)
	}
	switch len(ys) {
	case 0:
		return "false"
	case 1:
		return ys[0]
	}
	return "(or " + strings.Join(ys, " ") + ")"
}

func Not(x string) string {
	switch x {
	case "true":
		return "false"
	case "false":
		return "true"
	}
	if strings.HasPrefix(x, "(not ") && balancedTail(x[5:len(x)-1]) {
		return x[5 : len(x)-1]
	}
	return "(not " + x + ")"
}

func balancedTail(s string) bool {
	d := 0
	inq := false
	instr := false
	for i := 0; i < len(s); i++ {
		c := s[i]
		if instr {
			if c == '"' {
				instr = false
			}
			continue
		}
		if inq {
			if c == '|' {
				inq = false
			}
			continue
		}
		switch c {
		case '"':
			instr = true
		case '|':
			inq = true
		case '(':
			d++
		case ')':
			d--
			if d < 0 {
				return false
			}
		case ' ':
			if d == 0 {
				return false
			}
		}
	}
	return d == 0
}

func Implies(a, b string) string {
	if a == "true" {
		return b
	}
	if a == "false" || b == "true" {
		return "true"
	}
	return "(=> " + a + " " + b + ")"
}

func Eq(a, b string) string {
	if a == b {
		return "true"
	}
	return "(= " + a + " " + b + ")"
}

func Ite(c, a, b string) string {
	if c == "true" {
		return a
	}
	if c == "false" {
		return b
	}
	if a == b {
		return a
	}
	return "(ite " + c + " " + a + " " + b + ")"
}

func Select(a, i string) string   { return "(select " + a + " " + i + ")" }
func Store(a, i, v string) string { return "(store " + a + " " + i + " " + v + ")" }

func IntLit(n int64) string {
	if n < 0 {
		return fmt.Sprintf("(- %d)", -n)
	}
	return fmt.Sprintf("%d", n)
}

// StrLit renders a Go string as an SMT-LIB string literal.
func StrLit(s string) string {
	var b strings.Builder
	b.WriteByte('"')
	for _, r := range []byte(s) {
		switch {
		case r == '"':
			b.WriteString("\"\"")
		case r == '\\':
			b.WriteString("\\u{5c}")
		case r >= 32 && r < 127:
			b.WriteByte(r)
		default:
			fmt.Fprintf(&b, "\\u{%x}", r)
		}
	}
	b.WriteByte('"')
	return b.String()
}

func constArray(sort, v string) string {
	return "((as const " + sort + ") " + v + ")"
}

func sortedKeys[V any](m map[string]V) []string {
	ks := make([]string, 0, len(m))
	for k := range m {
		ks = append(ks, k)
	}
	sort.Strings(ks)
	return ks
}
