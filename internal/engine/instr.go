package engine

import (
	"fmt"
	"go/token"
	"go/types"
	"strconv"
	"strings"

	"golang.org/x/tools/go/ssa"
)

type tokenPosT = token.Pos

func (f *frame) set(v ssa.Value, val Val) {
	val.T = v.Type()
	f.regs[v] = f.x.nameVal(v.Name(), val)
}

func (f *frame) pos(in ssa.Instruction) string {
	p := in.Pos()
	if !p.IsValid() {
		// search nearby instruction for a position
		b := in.Block()
		for _, i2 := range b.Instrs {
			if i2.Pos().IsValid() {
				p = i2.Pos()
				if i2 == in {
					break
				}
			}
		}
	}
	return f.x.prog.pos(p)
}

func (f *frame) execInstr(in ssa.Instruction) {
	x := f.x
	vc := x.vc
	h := x.heap
	switch n := in.(type) {
	case *ssa.DebugRef:
		return
	case *ssa.Alloc:
		et := n.Type().(*types.Pointer).Elem()
		if arr, ok := under(et).(*types.Array); ok {
			base := h.newArray(f.st)
			for _, l := range leaves(arr.Elem()) {
				key := elemKey(arr.Elem(), l.Path)
				es := h.arrSort(vc.sortOf(l.T))
				sort := h.arrSort(es)
				h.set(f.st, key, sort, Store(h.get(f.st, key, sort), base, constArray(es, vc.zeroScalar(l.T))))
			}
			f.regs[n] = Val{T: n.Type(), S: base, P: &Ptr{Kind: ptrArrObj, Root: arr.Elem()}}
			return
		}
		p := h.newObj(f.st, et, true)
		f.set(n, p)
	case *ssa.FieldAddr:
		base := x.fixPtr(f.val(n.X))
		if base.P.Kind == ptrObj && base.P.Path == "" {
			f.safety("nil", fmt.Sprintf("nil dereference of %s (field %s)", n.X.Name(), fieldName(n.X.Type(), n.Field)), Not(Eq(base.S, "0")), f.pos(n))
		}
		st := under(n.X.Type()).(*types.Pointer).Elem()
		f.regs[n] = x.fieldAddrPath(base, st, []int{n.Field})
	case *ssa.Field:
		sv := f.val(n.X)
		f.regs[n] = sv.Fs[n.Field]
	case *ssa.IndexAddr:
		xv := f.val(n.X)
		idx := f.val(n.Index)
		switch u := under(n.X.Type()).(type) {
		case *types.Slice:
			f.safety("index", fmt.Sprintf("index out of range: %s[%s]", n.X.Name(), n.Index.Name()),
				And(app("<=", "0", idx.S), app("<", idx.S, xv.Fs[2].S)), f.pos(n))
			f.regs[n] = h.elemPtr(xv, idx.S)
			_ = u
		case *types.Pointer:
			// pointer to array
			arr := under(u.Elem()).(*types.Array)
			f.safety("index", "array index out of range", And(app("<=", "0", idx.S), app("<", idx.S, IntLit(arr.Len()))), f.pos(n))
			if xv.P != nil && xv.P.Kind == ptrArrObj {
				f.regs[n] = Val{T: n.Type(), S: xv.S, P: &Ptr{Kind: ptrElem, Root: arr.Elem(), Idx: idx.S}}
				return
			}
			base := x.fixPtr(xv)
			f.regs[n] = Val{T: n.Type(), S: base.S, P: &Ptr{Kind: ptrArrElem, Root: base.P.Root, Path: base.P.Path, Idx: idx.S, Global: base.P.Global, Sub: base.P.Kind}}
		default:
			panic(unsupported("IndexAddr on " + n.X.Type().String()))
		}
	case *ssa.Index:
		xv := f.val(n.X)
		idx := f.val(n.Index)
		switch under(n.X.Type()).(type) {
		case *types.Array:
			f.set(n, Val{S: Select(xv.S, idx.S)})
		case *types.Basic: // string
			f.safety("index", "string index out of range", And(app("<=", "0", idx.S), app("<", idx.S, app("str.len", xv.S))), f.pos(n))
			f.set(n, Val{S: app("str.to_code", app("str.at", xv.S, idx.S))})
		default:
			panic(unsupported("Index on " + n.X.Type().String()))
		}
	case *ssa.UnOp:
		f.unop(n)
	case *ssa.BinOp:
		f.set(n, x.binop(n.Op, f.val(n.X), f.val(n.Y), n.X.Type(), f, n))
	case *ssa.Store:
		addr := x.fixPtr(f.val(n.Addr))
		if addr.P.Kind == ptrObj && addr.P.Path == "" {
			f.safety("nil", "store through nil pointer "+n.Addr.Name(), Not(Eq(addr.S, "0")), f.pos(n))
		}
		f.storeAt(addr, f.val(n.Val))
	case *ssa.Phi:
		return
	case *ssa.Jump:
		f.edgeCtl = f.ctl
		f.edgeBr = f.br
		f.pushEdge(n.Block().Succs[0], f.cur)
	case *ssa.If:
		c := f.val(n.Cond).S
		br := f.br
		if br == "" {
			br = "true"
		}
		f.edgeCtl = vc.Def("ec", "Bool", And(f.ctl, c))
		f.edgeBr = vc.Def("eb", "Bool", And(br, c))
		f.pushEdge(n.Block().Succs[0], vc.Def("e", "Bool", And(f.cur, c)))
		f.edgeCtl = vc.Def("ec", "Bool", And(f.ctl, Not(c)))
		f.edgeBr = vc.Def("eb", "Bool", And(br, Not(c)))
		f.pushEdge(n.Block().Succs[1], vc.Def("e", "Bool", And(f.cur, Not(c))))
	case *ssa.Return:
		var rv Val
		switch len(n.Results) {
		case 0:
			rv = Val{T: types.NewTuple()}
		case 1:
			rv = f.val(n.Results[0])
			rv.T = f.fn.Signature.Results().At(0).Type()
		default:
			rv = Val{T: f.fn.Signature.Results()}
			for _, r := range n.Results {
				rv.Fs = append(rv.Fs, f.val(r))
			}
		}
		if f.top && x.localMode && x.exitCheck != nil {
			// local mode: the postconditions are checked at every return site separately
			x.retCount++
			x.retConds = append(x.retConds, f.cur)
			save := f.cur
			x.exitCheck(f, rv, fmt.Sprintf("@r%d", x.retCount))
			f.cur = save
			return
		}
		f.rets = append(f.rets, retInfo{cond: f.cur, st: f.st, val: rv, br: f.br})
	case *ssa.Panic:
		f.safety("panic", "explicit panic reachable", "false", f.pos(n))
		f.dead = true
	case *ssa.RunDefers:
		f.runDefers(n)
	case *ssa.Defer:
		f.deferCall(n)
	case *ssa.Go:
		// the spawned goroutine does not affect the spawner's state (DESIGN 2.9.5)
		x.vc.Assume["go statements: spawned goroutine bodies are separate verification units"] = true
	case *ssa.MakeMap:
		f.set(n, h.newMap(f.st, n.Type()))
	case *ssa.MakeSlice:
		ln := f.val(n.Len).S
		cp := f.val(n.Cap).S
		f.safety("makeslice", "makeslice: len out of range", And(app("<=", "0", ln), app("<=", ln, cp)), f.pos(n))
		base := h.newArray(f.st)
		sl := h.mkSlice(n.Type(), base, "0", ln, cp)
		// zero-initialised elements
		f.initElems(sl, "0", cp)
		f.set(n, sl)
	case *ssa.MakeChan:
		p := h.newObj(f.st, types.Typ[types.Int], false)
		x.chanInit(f.st, Val{T: n.Type(), S: p.S}, f.val(n.Size).S)
		f.set(n, Val{S: p.S})
	case *ssa.MakeInterface:
		f.set(n, x.box(f.val(n.X), n.X.Type()))
	case *ssa.MakeClosure:
		fn := n.Fn.(*ssa.Function)
		var bs []Val
		for _, b := range n.Bindings {
			bs = append(bs, f.val(b))
		}
		id := x.closureID(fn, bs)
		f.regs[n] = Val{T: n.Type(), S: id}
	case *ssa.ChangeType:
		v := f.val(n.X)
		v.T = n.Type()
		f.regs[n] = v
	case *ssa.ChangeInterface:
		v := f.val(n.X)
		v.T = n.Type()
		f.regs[n] = v
	case *ssa.Convert:
		f.set(n, x.convert(f, f.val(n.X), n.X.Type(), n.Type(), n))
	case *ssa.Extract:
		tv := f.val(n.Tuple)
		f.regs[n] = tv.Fs[n.Index]
	case *ssa.Slice:
		f.sliceOp(n)
	case *ssa.Lookup:
		f.lookup(n)
	case *ssa.MapUpdate:
		m := f.val(n.Map)
		f.safety("nilmap", "assignment to entry in nil map "+n.Map.Name(), Not(Eq(m.S, "0")), f.pos(n))
		k := f.val(n.Key)
		h.mapSet(f.st, m, k.S, f.val(n.Value))
	case *ssa.Range:
		if _, ok := under(n.X.Type()).(*types.Map); !ok {
			panic(unsupported("range over " + n.X.Type().String()))
		}
		m := f.val(n.X)
		mt := under(n.X.Type()).(*types.Map)
		ks := vc.sortOf(mt.Key())
		vs := "(Array " + ks + " Bool)"
		h.set(f.st, iterKey(n), vs, constArray(vs, "false"))
		h.set(f.st, iterDomKey(n), vs, h.mapDom(f.st, m))
		f.regs[n] = m
	case *ssa.Next:
		f.next(n)
	case *ssa.TypeAssert:
		f.typeAssert(n)
	case *ssa.Call:
		f.call(n)
	case *ssa.Select:
		f.selectStmt(n)
	case *ssa.Send:
		x.chanSend(f, f.val(n.Chan), f.val(n.X), f.pos(n))
	case *ssa.SliceToArrayPointer, *ssa.MultiConvert:
		panic(unsupported(fmt.Sprintf("%T", in)))
	default:
		panic(unsupported(fmt.Sprintf("instruction %T in %s", in, f.fn)))
	}
}

func fieldName(t types.Type, i int) string {
	if p, ok := under(t).(*types.Pointer); ok {
		t = p.Elem()
	}
	if s, ok := under(t).(*types.Struct); ok && i < s.NumFields() {
		return s.Field(i).Name()
	}
	return fmt.Sprint(i)
}

func (f *frame) storeAt(addr Val, v Val) {
	x := f.x
	if addr.P.Kind == ptrArrObj {
		key := elemKey(addr.P.Root, "")
		sort := x.heap.arrSort(x.heap.arrSort(x.vc.sortOf(addr.P.Root)))
		x.heap.set(f.st, key, sort, Store(x.heap.get(f.st, key, sort), addr.S, v.S))
		return
	}
	if addr.P.Kind == ptrArrElem {
		// element of an array object: read-modify-write of the array leaf
		arrPtr := Val{T: addr.T, S: addr.S, P: &Ptr{Kind: addr.P.Sub, Root: addr.P.Root, Path: addr.P.Path, Global: addr.P.Global}}
		at := subTypeOfPtr(arrPtr.P)
		cur := x.heap.load(f.st, arrPtr, at)
		x.heap.store(f.st, arrPtr, Val{T: at, S: Store(cur.S, addr.P.Idx, v.S)})
		return
	}
	x.heap.store(f.st, addr, v)
}

func subTypeOfPtr(p *Ptr) types.Type {
	if p.Kind == ptrGlobal {
		return subType(p.Root, p.Path)
	}
	return subType(p.Root, p.Path)
}

func (f *frame) loadAt(addr Val, t types.Type) Val {
	x := f.x
	if addr.P.Kind == ptrArrObj {
		key := elemKey(addr.P.Root, "")
		sort := x.heap.arrSort(x.heap.arrSort(x.vc.sortOf(addr.P.Root)))
		return Val{T: t, S: Select(x.heap.get(f.st, key, sort), addr.S)}
	}
	if addr.P.Kind == ptrArrElem {
		arrPtr := Val{T: addr.T, S: addr.S, P: &Ptr{Kind: addr.P.Sub, Root: addr.P.Root, Path: addr.P.Path, Global: addr.P.Global}}
		at := subTypeOfPtr(arrPtr.P)
		cur := x.heap.load(f.st, arrPtr, at)
		return Val{T: t, S: Select(cur.S, addr.P.Idx)}
	}
	return x.heap.load(f.st, addr, t)
}

func (f *frame) initElems(sl Val, lo, hi string) {
	// zero-initialise by replacing the element array with a constant array.
	x := f.x
	et := sliceElem(sl.T)
	zero := x.vc.zeroVal(et)
	eachLeaf(zero, "", func(path string, lv Val) {
		key := elemKey(et, path)
		sort := x.heap.arrSort(x.heap.arrSort(x.vc.sortOf(lv.T)))
		cur := x.heap.get(f.st, key, sort)
		x.heap.set(f.st, key, sort, Store(cur, sl.Fs[0].S, constArray(x.heap.arrSort(x.vc.sortOf(lv.T)), lv.S)))
	})
}

func (f *frame) unop(n *ssa.UnOp) {
	x := f.x
	v := f.val(n.X)
	switch n.Op {
	case token.MUL:
		addr := x.fixPtr(v)
		if addr.P.Kind == ptrObj && addr.P.Path == "" {
			f.safety("nil", "nil pointer dereference of "+n.X.Name(), Not(Eq(addr.S, "0")), f.pos(n))
		}
		if g, ok := n.X.(*ssa.Global); ok {
			if fv, ok := x.globalFuncAlias(g); ok {
				f.regs[n] = fv
				return
			}
		}
		lv := f.loadAt(addr, n.Type())
		lv = x.nameVal(n.Name(), lv)
		lv.T = n.Type()
		f.regs[n] = lv
		f.assume(x.heap.valAssume(f.st, lv))
		if g, ok := n.X.(*ssa.Global); ok && isInterface(n.Type()) && typeKey(n.Type()) == "error" && !x.prog.isRepoPkg(g.Pkg) {
			// exported error sentinels of libraries (io.EOF, ttrpc.ErrClosed, ...) are non-nil
			x.vc.Assume["library error sentinel values are non-nil and never reassigned ("+g.Pkg.Pkg.Name()+"."+g.Name()+")"] = true
			f.assume(Not(Eq(lv.Fs[0].S, "0")))
		}
	case token.NOT:
		f.set(n, Val{S: Not(v.S)})
	case token.SUB:
		if x.vc.BV && isInteger(n.Type()) {
			f.set(n, Val{S: app("bvneg", v.S)})
		} else {
			f.set(n, Val{S: app("-", v.S)})
		}
	case token.XOR:
		f.set(n, Val{S: x.bitnot(n.Type(), v.S)})
	case token.ARROW:
		f.set(n, x.chanRecv(f, v, n.CommaOk, n.Type(), f.pos(n)))
	default:
		panic(unsupported("unary op " + n.Op.String()))
	}
}

func (f *frame) sliceOp(n *ssa.Slice) {
	x := f.x
	xv := f.val(n.X)
	var lo, hi, mx string
	if n.Low != nil {
		lo = f.val(n.Low).S
	}
	if n.High != nil {
		hi = f.val(n.High).S
	}
	if n.Max != nil {
		mx = f.val(n.Max).S
	}
	switch u := under(n.X.Type()).(type) {
	case *types.Basic: // string
		if lo == "" {
			lo = "0"
		}
		if hi == "" {
			hi = app("str.len", xv.S)
		}
		f.safety("slice", "string slice bounds out of range", And(app("<=", "0", lo), app("<=", lo, hi), app("<=", hi, app("str.len", xv.S))), f.pos(n))
		f.set(n, Val{S: app("str.substr", xv.S, lo, app("-", hi, lo))})
	case *types.Slice:
		if lo == "" {
			lo = "0"
		}
		if hi == "" {
			hi = xv.Fs[2].S
		}
		cp := xv.Fs[3].S
		if mx == "" {
			mx = cp
		}
		// Go's rule: 0 <= lo <= hi <= max <= cap
		f.safety("slice", fmt.Sprintf("slice bounds out of range %s[%s:%s]", n.X.Name(), nameOr(n.Low), nameOr(n.High)),
			And(app("<=", "0", lo), app("<=", lo, hi), app("<=", hi, mx), app("<=", mx, cp)), f.pos(n))
		// stricter, contract-level obligation: a re-slice must not read past len (DESIGN C09.1)
		if n.High != nil && x.top != nil && x.top.hasFlag("slice-within-len") {
			f.safety("slicelen", fmt.Sprintf("slice %s[:%s] extends past len", n.X.Name(), nameOr(n.High)), app("<=", hi, xv.Fs[2].S), f.pos(n))
		}
		out := x.heap.mkSlice(n.Type(), xv.Fs[0].S, app("+", xv.Fs[1].S, lo), app("-", hi, lo), app("-", mx, lo))
		f.set(n, out)
	case *types.Pointer:
		// slicing a pointer to array: the array object becomes the backing store
		arr, ok := under(u.Elem()).(*types.Array)
		if !ok || xv.P == nil || xv.P.Kind != ptrArrObj {
			panic(unsupported("slice of " + n.X.Type().String()))
		}
		if lo == "" {
			lo = "0"
		}
		cp := IntLit(arr.Len())
		if hi == "" {
			hi = cp
		}
		if mx == "" {
			mx = cp
		}
		f.safety("slice", "slice bounds out of range (array)", And(app("<=", "0", lo), app("<=", lo, hi), app("<=", hi, mx), app("<=", mx, cp)), f.pos(n))
		f.set(n, x.heap.mkSlice(n.Type(), xv.S, lo, app("-", hi, lo), app("-", mx, lo)))
	default:
		panic(unsupported("slice of " + n.X.Type().String()))
	}
}

func nameOr(v ssa.Value) string {
	if v == nil {
		return ""
	}
	return v.Name()
}

func (f *frame) lookup(n *ssa.Lookup) {
	x := f.x
	h := x.heap
	xv := f.val(n.X)
	k := f.val(n.Index)
	if _, ok := under(n.X.Type()).(*types.Map); ok {
		f.assume(h.mapFacts(f.st, xv, k.S))
		v := h.mapGet(f.st, xv, k.S)
		if n.CommaOk {
			has := h.mapHas(f.st, xv, k.S)
			out := Val{T: n.Type(), Fs: []Val{v, {T: boolT, S: has}}}
			f.regs[n] = x.nameVal(n.Name(), out)
		} else {
			v = x.nameVal(n.Name(), v)
			v.T = n.Type()
			f.regs[n] = v
		}
		f.assume(h.valAssume(f.st, v))
		return
	}
	// string index
	f.safety("index", "string index out of range", And(app("<=", "0", k.S), app("<", k.S, app("str.len", xv.S))), f.pos(n))
	f.set(n, Val{S: app("str.to_code", app("str.at", xv.S, k.S))})
}

func (f *frame) next(n *ssa.Next) {
	x := f.x
	h := x.heap
	vc := x.vc
	r, ok := n.Iter.(*ssa.Range)
	if !ok {
		panic(unsupported("next on non-range iterator"))
	}
	if n.IsString {
		panic(unsupported("range over string"))
	}
	m := f.val(r.X)
	mt := under(r.X.Type()).(*types.Map)
	ks := vc.sortOf(mt.Key())
	vs := "(Array " + ks + " Bool)"
	visited := h.get(f.st, iterKey(r), vs)
	dom0 := h.get(f.st, iterDomKey(r), vs)
	dom := h.mapDom(f.st, m)
	okc := vc.Const("next.ok", "Bool")
	kc := vc.Const("next.k", ks)
	q := sym(vc.fresh("j"))
	f.assume(And(
		Implies(okc, And(Select(dom, kc), Not(Select(visited, kc)))),
		Implies(Not(okc), "(forall (("+q+" "+ks+")) "+Implies(And(Select(dom0, q), Select(dom, q)), Select(visited, q))+")"),
	))
	if ta := h.typeAssume(f.st, mt.Key(), kc); ta != "true" {
		f.assume(ta)
	}
	h.set(f.st, iterKey(r), vs, Ite(okc, Store(visited, kc, "true"), visited))
	kv := Val{T: mt.Key(), S: kc}
	vv := h.mapRaw(f.st, m, kc)
	f.assume(Implies(okc, h.mapFacts(f.st, m, kc)))
	f.assume(h.valAssume(f.st, vv))
	out := Val{T: n.Type(), Fs: []Val{{T: boolT, S: okc}, kv, vv}}
	f.regs[n] = x.nameVal(n.Name(), out)
}

func (f *frame) typeAssert(n *ssa.TypeAssert) {
	x := f.x
	iv := f.val(n.X)
	if isInterface(n.AssertedType) {
		// interface-to-interface assertion: satisfiable iff dynamic type implements it
		ok := x.implements(iv.Fs[0].S, n.AssertedType)
		res := iv
		res.T = n.AssertedType
		if n.CommaOk {
			zero := x.vc.zeroVal(n.AssertedType)
			f.regs[n] = Val{T: n.Type(), Fs: []Val{x.vc.iteVal(ok, res, zero), {T: boolT, S: ok}}}
		} else {
			f.safety("typeassert", "interface conversion may fail", ok, f.pos(n))
			f.regs[n] = res
		}
		return
	}
	tag := IntLit(int64(x.typeTag(n.AssertedType)))
	ok := Eq(iv.Fs[0].S, tag)
	val := x.unbox(iv, n.AssertedType)
	if n.CommaOk {
		zero := x.vc.zeroVal(n.AssertedType)
		out := Val{T: n.Type(), Fs: []Val{x.vc.iteVal(ok, val, zero), {T: boolT, S: ok}}}
		f.regs[n] = x.nameVal(n.Name(), out)
	} else {
		f.safety("typeassert", "type assertion may fail", ok, f.pos(n))
		f.regs[n] = val
	}
}

// box converts a concrete value to an interface value.
func (x *Exec) box(v Val, t types.Type) Val {
	if isInterface(t) {
		return v
	}
	tag := IntLit(int64(x.typeTag(t)))
	var payload string
	switch under(t).(type) {
	case *types.Pointer, *types.Map, *types.Chan, *types.Signature:
		payload = v.S
	default:
		if isInteger(t) && !x.vc.BV {
			payload = v.S
		} else if isBool(t) {
			payload = Ite(v.S, "1", "0")
		} else {
			payload = x.vc.Const("box", "Int")
			if x.boxes == nil {
				x.boxes = map[string]Val{}
			}
			x.boxes[payload] = v
			// boxing is injective on the string payload when it is a string
			if isString(t) {
				fn := x.vc.Fun("box.string", []string{"String"}, "Int")
				x.vc.FactFor(payload, Eq(payload, app(fn, v.S)))
				un := x.vc.Fun("unbox.string", []string{"Int"}, "String")
				x.vc.FactFor(payload, Eq(app(un, payload), v.S))
			}
		}
	}
	it := types.Typ[types.Int]
	return Val{T: types.NewInterfaceType(nil, nil), Fs: []Val{{T: it, S: tag}, {T: it, S: payload}}}
}

func (x *Exec) unbox(iv Val, t types.Type) Val {
	switch u := under(t).(type) {
	case *types.Pointer:
		return Val{T: t, S: iv.Fs[1].S, P: &Ptr{Kind: ptrObj, Root: u.Elem()}}
	case *types.Map, *types.Chan, *types.Signature:
		return Val{T: t, S: iv.Fs[1].S}
	}
	if isInteger(t) && !x.vc.BV {
		return Val{T: t, S: iv.Fs[1].S}
	}
	if isBool(t) {
		return Val{T: t, S: Eq(iv.Fs[1].S, "1")}
	}
	if isString(t) {
		un := x.vc.Fun("unbox.string", []string{"Int"}, "String")
		return Val{T: t, S: app(un, iv.Fs[1].S)}
	}
	if v, ok := x.boxes[iv.Fs[1].S]; ok {
		return v
	}
	return x.vc.freshVal(t, "unboxed")
}

// implements: uninterpreted predicate per (dynamic type tag, interface).
func (x *Exec) implements(tag string, iface types.Type) string {
	fn := x.vc.Fun("implements:"+typeKey(iface), []string{"Int"}, "Bool")
	// nil interface never satisfies a type assertion
	x.vc.FactFor(fn, Not(app(fn, "0")))
	// concrete types known to the program: decide statically
	it := under(iface).(*types.Interface)
	for name, n := range x.prog.typeTags {
		_ = name
		_ = n
	}
	for i, name := range x.prog.tagNames {
		_ = i
		_ = name
	}
	for ct, n := range x.prog.tagTypes {
		if types.Implements(ct, it) {
			x.vc.FactFor(fn, app(fn, IntLit(int64(n))))
		} else {
			x.vc.FactFor(fn, Not(app(fn, IntLit(int64(n)))))
		}
	}
	return app(fn, tag)
}

func (x *Exec) convert(f *frame, v Val, from, to types.Type, n *ssa.Convert) Val {
	vc := x.vc
	switch {
	case isInteger(from) && isInteger(to):
		if vc.BV {
			fb, tb := intBits(under(from).(*types.Basic)), intBits(under(to).(*types.Basic))
			switch {
			case fb == tb:
				return Val{S: v.S}
			case fb > tb:
				return Val{S: fmt.Sprintf("((_ extract %d 0) %s)", tb-1, v.S)}
			case isUnsigned(from):
				return Val{S: fmt.Sprintf("((_ zero_extend %d) %s)", tb-fb, v.S)}
			default:
				return Val{S: fmt.Sprintf("((_ sign_extend %d) %s)", tb-fb, v.S)}
			}
		}
		// mathematical integers: a conversion that cannot wrap is the identity;
		// otherwise wrap explicitly
		fb, tb := intBits(under(from).(*types.Basic)), intBits(under(to).(*types.Basic))
		fu, tu := isUnsigned(from), isUnsigned(to)
		if fu == tu && tb >= fb {
			return Val{S: v.S}
		}
		if !tu && fu && tb > fb {
			return Val{S: v.S}
		}
		return Val{S: wrapInt(v.S, tb, tu)}
	case isString(from) && isString(to):
		return Val{S: v.S}
	case isInteger(from) && isFloat(to):
		return Val{S: app("to_real", v.S)}
	case isFloat(from) && isInteger(to):
		// truncation toward zero
		return Val{S: Ite(app(">=", v.S, "0.0"), app("to_int", v.S), app("-", app("to_int", app("-", v.S))))}
	case isFloat(from) && isFloat(to):
		return Val{S: v.S}
	case isString(from) && isByteSlice(to):
		return x.stringToBytes(f, v, to)
	case isByteSlice(from) && isString(to):
		return Val{S: x.bytesToString(f, v)}
	case isPointer(from) && isPointer(to):
		return v
	}
	if _, ok := under(from).(*types.Basic); ok {
		if b, ok := under(from).(*types.Basic); ok && b.Kind() == types.UnsafePointer {
			return v
		}
	}
	panic(unsupported(fmt.Sprintf("conversion %s -> %s", from, to)))
}

func wrapInt(t string, bits int, unsigned bool) string {
	mod := new2(bits)
	if unsigned {
		return app("mod", t, mod)
	}
	half := new2(bits - 1)
	return app("-", app("mod", app("+", t, half), mod), half)
}

func new2(bits int) string {
	switch bits {
	case 8:
		return "256"
	case 7:
		return "128"
	case 16:
		return "65536"
	case 15:
		return "32768"
	case 32:
		return "4294967296"
	case 31:
		return "2147483648"
	case 64:
		return "18446744073709551616"
	case 63:
		return "9223372036854775808"
	}
	panic("new2")
}

func isFloat(t types.Type) bool {
	if b, ok := under(t).(*types.Basic); ok {
		return b.Info()&types.IsFloat != 0
	}
	return false
}

func isByteSlice(t types.Type) bool {
	if s, ok := under(t).(*types.Slice); ok {
		if b, ok := under(s.Elem()).(*types.Basic); ok {
			return b.Kind() == types.Uint8
		}
	}
	return false
}

func (x *Exec) stringToBytes(f *frame, v Val, to types.Type) Val {
	h := x.heap
	base := h.newArray(f.st)
	ln := app("str.len", v.S)
	sl := h.mkSlice(to, base, "0", ln, ln)
	// elements: arr[i] = code(s[i]) — expressed with a quantified fact over a fresh array
	et := sliceElem(to)
	key := elemKey(et, "")
	sort := h.arrSort(h.arrSort("Int"))
	arr := x.vc.Const("bytes", h.arrSort("Int"))
	q := sym(x.vc.fresh("i"))
	f.assume("(forall ((" + q + " Int)) " + Implies(And(app("<=", "0", q), app("<", q, ln)), Eq(Select(arr, q), app("str.to_code", app("str.at", v.S, q)))) + ")")
	h.set(f.st, key, sort, Store(h.get(f.st, key, sort), base, arr))
	h.set(f.st, bytesOfKey, "(Array Int String)", Store(h.get(f.st, bytesOfKey, "(Array Int String)"), base, v.S))
	return sl
}

func (x *Exec) bytesToString(f *frame, v Val) string {
	h := x.heap
	et := sliceElem(v.T)
	key := elemKey(et, "")
	sort := h.arrSort(h.arrSort("Int"))
	arr := Select(h.get(f.st, key, sort), v.Fs[0].S)
	s := x.vc.Const("str", "String")
	q := sym(x.vc.fresh("i"))
	f.assume(And(Eq(app("str.len", s), v.Fs[2].S),
		"(forall (("+q+" Int)) "+Implies(And(app("<=", "0", q), app("<", q, v.Fs[2].S)), Eq(app("str.to_code", app("str.at", s, q)), Select(arr, app("+", v.Fs[1].S, q))))+")"))
	return s
}

// foldInt folds integer operations on literals (as the compiler does for constant
// expressions), so that code and specifications agree syntactically on constants.
func foldInt(op token.Token, a, b string) (string, bool) {
	x, err1 := strconv.ParseInt(a, 10, 64)
	y, err2 := strconv.ParseInt(b, 10, 64)
	if err1 != nil || err2 != nil {
		return "", false
	}
	switch op {
	case token.ADD:
		return IntLit(x + y), true
	case token.SUB:
		return IntLit(x - y), true
	case token.MUL:
		return IntLit(x * y), true
	case token.SHL:
		if y >= 0 && y < 63 {
			return IntLit(x << uint(y)), true
		}
	case token.AND:
		return IntLit(x & y), true
	case token.OR:
		return IntLit(x | y), true
	}
	return "", false
}

func (x *Exec) binop(op token.Token, a, b Val, opT types.Type, f *frame, n *ssa.BinOp) Val {
	vc := x.vc
	if !vc.BV && isInteger(opT) {
		if r, ok := foldInt(op, a.S, b.S); ok {
			return Val{S: r}
		}
	}
	bv := vc.BV && isInteger(opT)
	uns := isUnsigned(opT)
	switch op {
	case token.EQL:
		return Val{S: x.goEq(a, b, opT)}
	case token.NEQ:
		return Val{S: Not(x.goEq(a, b, opT))}
	case token.LSS, token.LEQ, token.GTR, token.GEQ:
		if isString(opT) {
			switch op {
			case token.LSS:
				return Val{S: app("str.<", a.S, b.S)}
			case token.LEQ:
				return Val{S: app("str.<=", a.S, b.S)}
			case token.GTR:
				return Val{S: app("str.<", b.S, a.S)}
			default:
				return Val{S: app("str.<=", b.S, a.S)}
			}
		}
		var o string
		if bv {
			if uns {
				o = map[token.Token]string{token.LSS: "bvult", token.LEQ: "bvule", token.GTR: "bvugt", token.GEQ: "bvuge"}[op]
			} else {
				o = map[token.Token]string{token.LSS: "bvslt", token.LEQ: "bvsle", token.GTR: "bvsgt", token.GEQ: "bvsge"}[op]
			}
		} else {
			o = map[token.Token]string{token.LSS: "<", token.LEQ: "<=", token.GTR: ">", token.GEQ: ">="}[op]
		}
		return Val{S: app(o, a.S, b.S)}
	case token.ADD:
		if isString(opT) {
			return Val{S: app("str.++", a.S, b.S)}
		}
		if bv {
			return Val{S: app("bvadd", a.S, b.S)}
		}
		return Val{S: app("+", a.S, b.S)}
	case token.SUB:
		if bv {
			return Val{S: app("bvsub", a.S, b.S)}
		}
		return Val{S: app("-", a.S, b.S)}
	case token.MUL:
		if bv {
			return Val{S: app("bvmul", a.S, b.S)}
		}
		return Val{S: app("*", a.S, b.S)}
	case token.QUO:
		if isFloat(opT) {
			return Val{S: app("/", a.S, b.S)}
		}
		if f != nil {
			zero := vc.intLit(opT, 0)
			f.safety("div", "integer division by zero", Not(Eq(b.S, zero)), f.pos(n))
		}
		if bv {
			if uns {
				return Val{S: app("bvudiv", a.S, b.S)}
			}
			return Val{S: app("bvsdiv", a.S, b.S)}
		}
		return Val{S: goDiv(a.S, b.S)}
	case token.REM:
		if f != nil {
			zero := vc.intLit(opT, 0)
			f.safety("div", "integer division by zero", Not(Eq(b.S, zero)), f.pos(n))
		}
		if bv {
			if uns {
				return Val{S: app("bvurem", a.S, b.S)}
			}
			return Val{S: app("bvsrem", a.S, b.S)}
		}
		return Val{S: goRem(a.S, b.S)}
	case token.AND, token.OR, token.XOR, token.AND_NOT:
		if isBool(opT) {
			switch op {
			case token.AND:
				return Val{S: And(a.S, b.S)}
			case token.OR:
				return Val{S: Or(a.S, b.S)}
			}
		}
		return Val{S: x.bitop(op.String(), opT, a.S, b.S)}
	case token.SHL, token.SHR:
		bs := b.S
		if bv {
			// shift count may have another width: normalise to the operand width
			bs = x.bvResize(b.S, n.Y.Type(), opT)
		}
		return Val{S: x.bitop(op.String(), opT, a.S, bs)}
	}
	panic(unsupported("binary op " + op.String()))
}

func (x *Exec) bvResize(t string, from, to types.Type) string {
	fb, tb := intBits(under(from).(*types.Basic)), intBits(under(to).(*types.Basic))
	switch {
	case fb == tb:
		return t
	case fb > tb:
		return fmt.Sprintf("((_ extract %d 0) %s)", tb-1, t)
	default:
		return fmt.Sprintf("((_ zero_extend %d) %s)", tb-fb, t)
	}
}

// bitop encodes bit operations: exact in BV mode, uninterpreted (but consistent)
// in integer mode.
func (x *Exec) bitop(op string, t types.Type, a, b string) string {
	if x.vc.BV {
		switch op {
		case "&":
			return app("bvand", a, b)
		case "|":
			return app("bvor", a, b)
		case "^":
			return app("bvxor", a, b)
		case "&^":
			return app("bvand", a, app("bvnot", b))
		case "<<":
			return app("bvshl", a, b)
		case ">>":
			if isUnsigned(t) {
				return app("bvlshr", a, b)
			}
			return app("bvashr", a, b)
		}
	}
	name := map[string]string{"&": "band", "|": "bor", "^": "bxor", "&^": "bandnot", "<<": "shl", ">>": "shr"}[op]
	fn := x.vc.Fun("bit."+name, []string{"Int", "Int"}, "Int")
	x.vc.Assume["bit operations in integer-mode functions are uninterpreted (exact reasoning is done in bitvector-mode functions)"] = true
	if op == "<<" {
		// the one fact integer-mode callers rely on: 1<<k is positive and injective is NOT assumed
		return app(fn, a, b)
	}
	return app(fn, a, b)
}

func (x *Exec) bitnot(t types.Type, a string) string {
	if x.vc.BV {
		return app("bvnot", a)
	}
	fn := x.vc.Fun("bit.not", []string{"Int"}, "Int")
	if !x.vc.seen["axiom:and-not"] {
		// the one algebraic fact integer-mode code relies on: x & ^x == 0
		x.vc.seen["axiom:and-not"] = true
		and := x.vc.Fun("bit.band", []string{"Int", "Int"}, "Int")
		x.vc.FactFor(fn, "(forall ((bx Int)) (= ("+and+" bx ("+fn+" bx)) 0))")
	}
	return app(fn, a)
}

// goEq: Go's == for values of static type t.
func (x *Exec) goEq(a, b Val, t types.Type) string {
	if len(a.Fs) != len(b.Fs) {
		// comparing interface with concrete is not produced by SSA (MakeInterface first)
		panic(fmt.Sprintf("goEq: shape mismatch %v vs %v", a.T, b.T))
	}
	return x.vc.eqVal(a, b)
}

func (x *Exec) specConst(e *Env, name string) (Val, bool) {
	// package-level Go constants and spec consts
	if pf, ok := x.prog.Pures[pureKey(e.pkg, name)]; ok && len(pf.Params) == 0 {
		env := *e
		env.vars = map[string]Val{}
		env.pkg = pf.Pkg
		return env.Eval(pf.Body), true
	}
	if e.pkg != nil {
		if obj := e.pkg.Scope().Lookup(name); obj != nil {
			if c, ok := obj.(*types.Const); ok {
				return x.constVal(c.Type(), c.Val()), true
			}
			if _, ok := obj.(*types.Var); ok {
				// package-level variable of the contract's package
				if sp := x.prog.SSA.Package(e.pkg); sp != nil {
					if g, ok := sp.Members[name].(*ssa.Global); ok {
						et := g.Type().(*types.Pointer).Elem()
						pv := Val{T: g.Type(), S: "1", P: &Ptr{Kind: ptrGlobal, Root: et, Global: e.pkg.Name() + "." + g.Name()}}
						return x.heap.load(e.cur, pv, et), true
					}
				}
			}
		}
	}
	// qualified constants are written pkg_Name in specs? no: handled by SSel on package ident
	if k := strings.Index(name, "__"); k > 0 {
		pn, cn := name[:k], name[k+2:]
		for _, p := range x.prog.All {
			if p.Types != nil && p.Types.Name() == pn {
				if obj := p.Types.Scope().Lookup(cn); obj != nil {
					if c, ok := obj.(*types.Const); ok {
						return x.constVal(c.Type(), c.Val()), true
					}
				}
			}
		}
	}
	return Val{}, false
}
