package engine

import (
	"golang.org/x/tools/go/ssa"
	"go/ast"
	"path/filepath"
	"fmt"
	"go/types"
	"runtime/debug"
	"strings"

)

// UnitResult is the outcome of generating VCs for one unit.
// NameTable: the parameter and local variable names of a function, in order of first
// appearance.  Recorded with the baseline so that a contract written against the old
// names still binds after a pure renaming (same number of names, same positions).
type NameTable struct {
	Params []string `json:"params"`
	Locals []string `json:"locals"`
	// LocalTypes[i] is the type of Locals[i] (first declaration); used to pair renamed locals
	// with their new names when declarations were also reordered
	LocalTypes []string `json:"local_types,omitempty"`
}

// NameBaseline is filled by the driver from baseline_names.json (unit -> names).
var NameBaseline = map[string]NameTable{}

func namesOf(fn *ssa.Function) NameTable {
	var t NameTable
	for _, p := range fn.Params {
		t.Params = append(t.Params, p.Name())
	}
	for _, fv := range fn.FreeVars {
		t.Params = append(t.Params, fv.Name())
	}
	seen := map[string]bool{}
	for _, b := range fn.Blocks {
		for _, in := range b.Instrs {
			if d, ok := in.(*ssa.DebugRef); ok {
				id, ok := d.Expr.(*ast.Ident)
				if !ok || seen[id.Name] {
					continue
				}
				// local variables only (not fields, functions, constants or package-level names)
				v, isVar := d.Object().(*types.Var)
				if !isVar || v.IsField() || v.Pkg() == nil || v.Parent() == v.Pkg().Scope() {
					continue
				}
				seen[id.Name] = true
				t.Locals = append(t.Locals, id.Name)
				t.LocalTypes = append(t.LocalTypes, types.TypeString(v.Type(), nil))
			}
		}
	}
	return t
}

func unitName(ct *Contract) string {
	if ct.Pkg != nil && ct.Pkg.Name() != "adaptation" {
		if ct.Pkg.Name() == "main" {
			// commands: several of them may be loaded for one property, name by directory
			return filepath.Base(ct.Pkg.Path()) + "." + ct.Key
		}
		return ct.Pkg.Name() + "." + ct.Key
	}
	return ct.Key
}

// aliasesFor maps names of the recorded table to the names that now stand for the same
// variables.  A name that still exists keeps its meaning.  Names that disappeared are paired,
// in declaration order, with the new names of the same type (so a renaming survives a
// reordering of declarations); without recorded types the pairing is by position.
func aliasesFor(old, cur NameTable) map[string]string {
	al := map[string]string{}
	pos := func(a, b []string) {
		if len(a) != len(b) {
			return
		}
		for i := range a {
			if a[i] != b[i] {
				al[a[i]] = b[i]
			}
		}
	}
	pos(old.Params, cur.Params)
	if len(old.LocalTypes) != len(old.Locals) || len(cur.LocalTypes) != len(cur.Locals) {
		pos(old.Locals, cur.Locals)
		return al
	}
	inCur, inOld := map[string]bool{}, map[string]bool{}
	for _, n := range cur.Locals {
		inCur[n] = true
	}
	for _, n := range old.Locals {
		inOld[n] = true
	}
	gone := map[string][]string{} // type -> old names no longer present
	for i, n := range old.Locals {
		if !inCur[n] {
			gone[old.LocalTypes[i]] = append(gone[old.LocalTypes[i]], n)
		}
	}
	fresh := map[string][]string{} // type -> names that are new
	for i, n := range cur.Locals {
		if !inOld[n] {
			fresh[cur.LocalTypes[i]] = append(fresh[cur.LocalTypes[i]], n)
		}
	}
	for t, g := range gone {
		f := fresh[t]
		if len(f) != len(g) {
			continue // not a pure renaming for this type: leave the names alone
		}
		for i := range g {
			if _, isParam := al[g[i]]; !isParam {
				al[g[i]] = f[i]
			}
		}
	}
	return al
}

type UnitResult struct {
	Relaxed  []string // heap keys whose loop frames were relaxed (second pass, see cmd)
	Names    NameTable
	Unit     string
	Contract *Contract
	Lemma    *Lemma
	VC       *VC
	Err      error // engine limitation / contract error: the unit could not be encoded
	Pos      string
}

// VerifyFunc generates the verification conditions of one function under contract.
func (prog *Program) VerifyFunc(ct *Contract, opts Options) (res *UnitResult) {
	vc := NewVC(unitName(ct))
	vc.BV = ct.BV
	res = &UnitResult{Unit: vc.Unit, Contract: ct, VC: vc, Pos: fmt.Sprintf("%s:%d", ct.File, ct.Line)}
	defer func() {
		if r := recover(); r != nil {
			switch e := r.(type) {
			case unsupportedErr:
				res.Err = e
			case specErr:
				res.Err = fmt.Errorf("contract error: %s", e.msg)
			default:
				res.Err = fmt.Errorf("engine panic: %v\n%s", r, debug.Stack())
			}
		}
	}()
	if opts.InlineDepth == 0 {
		opts.InlineDepth = 6
	}
	x := &Exec{prog: prog, vc: vc, top: ct, callOrd: map[string]int{}, oblNames: map[string]int{}, opts: opts, closures: map[string]*Closure{}}
	if ct.Fn != nil {
		cur := namesOf(ct.Fn)
		if old, ok := NameBaseline[vc.Unit]; ok {
			x.alias = aliasesFor(old, cur)
		}
		defer func() {
			if res != nil {
				res.Names = cur
			}
		}()
	}
	x.heap = newHeap(vc)
	x.heap.declare(allocKey, "Int")
	x.entry = newState()
	fn := ct.Fn
	st := newState()
	pc := app(">", x.heap.alloc(st), "1")
	// parameters
	var args []Val
	x.topVars = map[string]Val{}
	var assumes []string
	for _, p := range fn.Params {
		v := x.fixPtrs(vc.freshVal(p.Type(), "p."+p.Name()))
		args = append(args, v)
		x.topVars[p.Name()] = v
		assumes = append(assumes, x.heap.valAssume(st, v))
	}
	var free []Val
	for _, fv := range fn.FreeVars {
		v := x.fixPtrs(vc.freshVal(fv.Type(), "fv."+fv.Name()))
		free = append(free, v)
		assumes = append(assumes, x.heap.valAssume(st, v), Not(Eq(v.S, "0")))
		// free variables are addressed by name in specs: bind the pointee lazily via lookup
		x.topVars["&"+fv.Name()] = v
	}
	pc = And(append([]string{pc}, assumes...)...)
	// modifies targets are evaluated in the entry state
	env := x.baseEnv(st)
	env.old = st
	for _, fv := range fn.FreeVars {
		if p, ok := under(fv.Type()).(*types.Pointer); ok {
			env.vars[fv.Name()] = x.heap.load(st, x.topVars["&"+fv.Name()], p.Elem())
		}
	}
	for i := range ct.Modifies {
		x.modTargets = append(x.modTargets, x.resolveModifies(env, &ct.Modifies[i])...)
	}
	// requires
	for i := range ct.Requires {
		c := ct.Requires[i]
		pc = And(pc, x.evalClause(env, &c), x.takePending())
	}
	if ct.Bounded > 0 {
		x.bounded = true
		x.unrollMax = ct.Bounded
		for i := range ct.Sizes {
			c := ct.Sizes[i]
			pc = And(pc, x.evalClause(env, &c), x.takePending())
		}
	}
	pc = vc.Def("pre", "Bool", pc)
	// vacuity: the precondition must be satisfiable
	vc.AddObl(&Obligation{Name: vc.Unit + "#cover.pre", Kind: "cover", Desc: "precondition is satisfiable (non-vacuity)", Hyp: "true", Goal: pc, Cover: true, Props: ct.Props})
	if ct.Trusted {
		return res
	}
	x.localMode = len(ct.Keeps) > 0
	x.entrySt = st
	x.exitCheck = func(f *frame, val Val, tag string) {
		post := x.baseEnv(f.st)
		post.old = st
		x.bindResult(post, fn.Signature, tupleOf(fn.Signature, val))
		for _, fv := range fn.FreeVars {
			if p, ok := under(fv.Type()).(*types.Pointer); ok {
				post.vars[fv.Name()] = x.heap.load(f.st, x.topVars["&"+fv.Name()], p.Elem())
			}
		}
		pos := prog.pos(fn.Pos())
		for i := range ct.Ensures {
			c := ct.Ensures[i]
			if c.Thorough && !opts.Thorough {
				if tag == "" || tag == "@r1" {
					vc.Deferred++
				}
				continue
			}
			parts := SplitConj(c.Expr)
			if tag != "" {
				parts = []SExpr{c.Expr} // per-return checks: one obligation per clause
			}
			for j, pe := range parts {
				pc := c
				pc.Expr = pe
				name := "ensures." + clauseName(&c, i)
				if len(parts) > 1 {
					name = fmt.Sprintf("%s.%d", name, j+1)
					pc.Text = SpecString(pe)
				}
				t := x.evalClause(post, &pc)
				f.assertNoAssume(name+tag, "postcondition: "+pc.Text, t, &pc, pos)
			}
		}
		// frame: everything outside the modifies clause is unchanged
		if !ct.ModAll && !ct.ModStatic {
			for _, k := range x.heap.order {
				if k == allocKey || strings.HasPrefix(k, "X:iter") || strings.HasPrefix(k, "X:defer:") || strings.HasPrefix(k, "X:ctx:") {
					continue
				}
				cur, ok := f.st.heap[k]
				if !ok {
					continue
				}
				init := x.heap.initial(k)
				if cur == init {
					continue
				}
				ff := x.frameFormula(k, x.heap.sorts[k], cur, init, x.entryAlloc())
				if ff == "true" {
					continue
				}
				f.assertNoAssume("frame."+k+tag, "nothing outside the modifies clause changes: "+k, ff, nil, pos)
			}
		}
	}
	r := x.run(fn, args, free, st.clone(), pc, 0, true)
	if r.noRet && !x.localMode {
		vc.Notes = append(vc.Notes, "function never returns normally")
		return res
	}
	// non-vacuity: the exit is reachable
	exitCond := r.cond
	if x.localMode {
		exitCond = Or(x.retConds...)
		if len(x.retConds) == 0 {
			vc.Notes = append(vc.Notes, "function never returns normally")
			return res
		}
	}
	vc.AddObl(&Obligation{Name: vc.Unit + "#cover.exit", Kind: "cover", Desc: "function exit is reachable under the contract's assumptions (non-vacuity)", Hyp: "true", Goal: exitCond, Cover: true, Props: ct.Props})
	if !x.localMode {
		f := &frame{x: x, fn: fn, cur: r.cond, st: r.st, top: true}
		x.exitCheck(f, r.val, "")
	}
	return res
}

func tupleOf(sig *types.Signature, v Val) Val {
	if sig.Results().Len() == 1 {
		return Val{T: sig.Results(), Fs: []Val{v}}
	}
	return v
}

func (f *frame) assertNoAssume(kind, desc, goal string, cl *Clause, pos string) {
	f.flush()
	x := f.x
	o := &Obligation{Name: x.oblName(kind), Kind: strings.SplitN(kind, ".", 2)[0], Desc: desc, Hyp: f.cur, Goal: goal, Pos: pos, Abstr: x.abstracted, Bounded: x.bounded}
	if x.top != nil {
		o.Props = x.top.Props
	}
	if cl != nil {
		o.KF = cl.KF
		if len(cl.Props) > 0 {
			o.Props = cl.Props
		}
	}
	o.NoAssume = true
	if o.KF == "" && !o.Bounded {
		o.Group = x.group
	}
	x.vc.AddObl(o)
}

// VerifyLemma encodes a pure lemma.
func (prog *Program) VerifyLemma(lm *Lemma) (res *UnitResult) {
	vc := NewVC("lemma." + lm.Name)
	vc.BV = lm.BV
	res = &UnitResult{Unit: vc.Unit, Lemma: lm, VC: vc, Pos: fmt.Sprintf("%s:%d", lm.File, lm.Line)}
	defer func() {
		if r := recover(); r != nil {
			switch e := r.(type) {
			case unsupportedErr:
				res.Err = e
			case specErr:
				res.Err = fmt.Errorf("contract error: %s", e.msg)
			default:
				res.Err = fmt.Errorf("engine panic: %v\n%s", r, debug.Stack())
			}
		}
	}()
	x := &Exec{prog: prog, vc: vc, callOrd: map[string]int{}, oblNames: map[string]int{}, opts: Options{InlineDepth: 6}, closures: map[string]*Closure{}}
	x.heap = newHeap(vc)
	x.heap.declare(allocKey, "Int")
	st := newState()
	x.entry = st
	env := &Env{x: x, vars: map[string]Val{}, cur: st, old: st, pkg: lm.Pkg}
	hyp := "true"
	for _, v := range lm.Vars {
		t := x.resolveType(v.Type, lm.Pkg)
		val := x.fixPtrs(vc.freshVal(t, "v."+v.Name))
		env.vars[v.Name] = val
		hyp = And(hyp, x.heap.valAssume(st, val))
	}
	for i := range lm.Hyps {
		hyp = And(hyp, x.evalClause(env, &lm.Hyps[i]), x.takePending())
	}
	hyp = vc.Def("hyp", "Bool", hyp)
	vc.AddObl(&Obligation{Name: vc.Unit + "#cover.hyp", Kind: "cover", Desc: "lemma hypotheses are satisfiable", Hyp: "true", Goal: hyp, Cover: true, Props: lm.Props})
	goal := x.evalClause(env, &lm.Goal)
	hyp = And(hyp, x.takePending())
	vc.AddObl(&Obligation{Name: vc.Unit + "#goal", Kind: "lemma", Desc: "lemma: " + lm.Goal.Text, Hyp: hyp, Goal: goal, Props: lm.Props, KF: lm.Goal.KF})
	return res
}
