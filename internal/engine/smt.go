package engine

import (
	"bytes"
	"context"
	"crypto/sha256"
	"encoding/hex"
	"encoding/json"
	"fmt"
	"os"
	"os/exec"
	"path/filepath"
	"strings"
	"sync"
	"time"
)

type Solver struct {
	Name string
	Args func(timeoutMs int, file string) []string
	Bin  string
}

var Solvers = []Solver{
	{Name: "z3-5.1.0", Bin: "z3-new", Args: func(t int, f string) []string { return []string{"-smt2", fmt.Sprintf("-t:%d", t), f} }},
	{Name: "cvc5-1.0.3", Bin: "cvc5", Args: func(t int, f string) []string {
		return []string{"--incremental", "--produce-models", "--strings-exp", fmt.Sprintf("--tlimit-per=%d", t), f}
	}},
	{Name: "z3-4.8.12", Bin: "z3", Args: func(t int, f string) []string { return []string{"-smt2", fmt.Sprintf("-t:%d", t), f} }},
}

// answer cache: identical query text => identical answer (keyed by SHA-256 of the query).
// Only definite answers are cached.  Disabled when CacheDir is empty.
type cacheEntry struct {
	Status string  `json:"status"`
	Solver string  `json:"solver"`
	TimeS  float64 `json:"time_s"`
	Second string  `json:"second,omitempty"` // "tried": a second opinion was sought (thorough tier)
}

func cachePath(dir, script string) string {
	h := sha256.Sum256([]byte(script))
	x := hex.EncodeToString(h[:])
	return filepath.Join(dir, x[:2], x)
}

func cacheGet(dir, script string) (cacheEntry, bool) {
	var e cacheEntry
	if dir == "" {
		return e, false
	}
	data, err := os.ReadFile(cachePath(dir, script))
	if err != nil || json.Unmarshal(data, &e) != nil {
		return e, false
	}
	return e, e.Status == "unsat" || e.Status == "sat"
}

func cachePut(dir, script string, e cacheEntry) {
	if dir == "" || (e.Status != "unsat" && e.Status != "sat") {
		return
	}
	p := cachePath(dir, script)
	os.MkdirAll(filepath.Dir(p), 0o755)
	data, _ := json.Marshal(e)
	tmp := p + ".tmp"
	if os.WriteFile(tmp, data, 0o644) == nil {
		os.Rename(tmp, p)
	}
}

type SolveOpts struct {
	CacheDir   string
	Progress   func(o *Obligation)
	NoEscalate bool
	TimeoutMs  int
	WorkDir    string
	SecondOpin bool // thorough: every unsat confirmed by a second solver
	Seed       int
}

func oblQuery(o *Obligation) string {
	if o.Cover {
		return And(o.Hyp, o.Goal)
	}
	return And(o.Hyp, Not(o.Goal))
}

// queryScript renders one obligation with only its cone of influence.
func QueryScript(vc *VC, o *Obligation, models bool) string { return queryScript(vc, o, models) }

func queryScript(vc *VC, o *Obligation, models bool) string {
	var b strings.Builder
	if models {
		b.WriteString("(set-option :produce-models true)\n")
	}
	q := oblQuery(o)
	b.WriteString(vc.Slice(q))
	fmt.Fprintf(&b, "(assert %s)\n(check-sat)\n", q)
	if models {
		b.WriteString("(get-model)\n")
	}
	return b.String()
}

func runSolver(s Solver, file string, timeoutMs int, nQueries int) (string, error) {
	return runSolverCtx(context.Background(), s, file, timeoutMs, nQueries)
}

func runSolverCtx(parent context.Context, s Solver, file string, timeoutMs int, nQueries int) (string, error) {
	hard := time.Duration(timeoutMs*nQueries+5000) * time.Millisecond
	ctx, cancel := context.WithTimeout(parent, hard)
	defer cancel()
	cmd := exec.CommandContext(ctx, s.Bin, s.Args(timeoutMs, file)...)
	var out bytes.Buffer
	cmd.Stdout = &out
	cmd.Stderr = &out
	err := cmd.Run()
	if ctx.Err() != nil {
		return out.String(), fmt.Errorf("hard timeout")
	}
	_ = err
	return out.String(), nil
}

// parseAnswers extracts the check-sat answers (in order) and any error lines.
func parseAnswers(out string) (answers []string, errs []string) {
	for _, l := range strings.Split(out, "\n") {
		t := strings.TrimSpace(l)
		switch {
		case t == "sat" || t == "unsat" || t == "unknown" || t == "timeout":
			answers = append(answers, t)
		case strings.HasPrefix(t, "(error"):
			if strings.Contains(t, "model is not available") || strings.Contains(t, "Cannot get model") {
				continue
			}
			errs = append(errs, t)
		}
	}
	return
}

// global limit on concurrently running solver processes
var solverSlots = make(chan struct{}, 16)

// Solve discharges all obligations of a VC: every obligation is sent, with only its
// cone of influence, to z3 5.1 and cvc5 in parallel (first definite answer wins);
// what stays undecided is escalated to all three solvers with a longer timeout.
func Solve(vc *VC, opts SolveOpts) error {
	if len(vc.Obls) == 0 {
		return nil
	}
	if opts.TimeoutMs == 0 {
		opts.TimeoutMs = 10000
	}
	base := filepath.Join(opts.WorkDir, sanitize(vc.Unit))
	first := opts.TimeoutMs
	if first > 4000 {
		first = 4000
	}
	var wg sync.WaitGroup
	var mu sync.Mutex
	var firstErr error
	type job struct {
		i int
		o *Obligation
	}
	jobs := make(chan job)
	workers := 12
	for w := 0; w < workers; w++ {
		wg.Add(1)
		go func() {
			defer wg.Done()
			for j := range jobs {
				i, o := j.i, j.o
				fb := fmt.Sprintf("%s.%d", base, i)
				// second opinions (thorough tier) are sought for the functional obligations; the
				// per-instruction safety obligations are the bulk and are decided as in the quick tier
				need2 := opts.SecondOpin && !o.Cover && o.Kind != "safety"
				key := queryScript(vc, o, false)
				if ce, ok := cacheGet(opts.CacheDir, key); ok && (!need2 || ce.Second == "tried" || strings.Contains(ce.Solver, "+")) {
					o.Status, o.Solver, o.TimeS, o.Cached = ce.Status, ce.Solver, ce.TimeS, true
					if opts.Progress != nil {
						opts.Progress(o)
					}
					continue
				}
				err := solveOne(vc, o, fb, []Solver{Solvers[0], Solvers[1]}, first, need2, false)
				want := "unsat"
				if o.Cover {
					want = "sat"
				}
				if err == nil && o.Status != want && !(o.Cover && o.Status == "unknown") && !opts.NoEscalate {
					// escalate: all solvers, longer timeout, models
					// generous: the limit only costs time on obligations that are not discharged, and a
					// tight one makes the verdict depend on the machine's load
					err = solveOne(vc, o, fb+".x", Solvers, opts.TimeoutMs*12, need2, true)
				}
				// (thorough tier) the first round already ran both solvers to completion or to
				// the first timeout: an answer both gave is recorded as "a+b"; one that only one
				// solver gave within that time stays discharged by that solver alone.  A further
				// round for the unconfirmed ones cost 10 s x 3 solvers each and confirmed few.
				if err == nil && o.Status != "sat" {
					ce := cacheEntry{Status: o.Status, Solver: o.Solver, TimeS: o.TimeS}
					if need2 {
						ce.Second = "tried"
					}
					cachePut(opts.CacheDir, key, ce)
				}
				if opts.Progress != nil {
					opts.Progress(o)
				}
				if err != nil {
					mu.Lock()
					if firstErr == nil {
						firstErr = err
					}
					mu.Unlock()
				}
			}
		}()
	}
	// groups first: all members as one conjunction under the first member's hypothesis (later
	// members' hypotheses are that one plus the earlier goals).  What a group query does not
	// settle is solved member by member below.
	groups := map[string][]*Obligation{}
	var order []string
	for _, o := range vc.Obls {
		if o.Group != "" && !o.Cover && o.KF == "" {
			if _, ok := groups[o.Group]; !ok {
				order = append(order, o.Group)
			}
			groups[o.Group] = append(groups[o.Group], o)
		}
	}
	var gwg sync.WaitGroup
	gsem := make(chan struct{}, workers)
	for gi, g := range order {
		ms := groups[g]
		if len(ms) < 2 {
			continue
		}
		gwg.Add(1)
		go func(gi int, ms []*Obligation) {
			defer gwg.Done()
			gsem <- struct{}{}
			defer func() { <-gsem }()
			var goals []string
			for _, m := range ms {
				goals = append(goals, m.Goal)
			}
			hyp := ms[0].Hyp
			allNo := true
			for _, m := range ms {
				if !m.NoAssume {
					allNo = false
				}
			}
			if allNo {
				// nothing was assumed in between: the last hypothesis is the first plus type facts
				hyp = ms[len(ms)-1].Hyp
			}
			syn := &Obligation{Name: ms[0].Name + "+group", Hyp: hyp, Goal: And(goals...)}
			key := queryScript(vc, syn, false)
			if ce, ok := cacheGet(opts.CacheDir, key); ok && ce.Status == "unsat" {
				for _, m := range ms {
					m.Status, m.Solver, m.TimeS, m.Cached = "unsat", ce.Solver, ce.TimeS/float64(len(ms)), true
				}
				return
			}
			fb := fmt.Sprintf("%s.g%d", base, gi)
			if err := solveOne(vc, syn, fb, []Solver{Solvers[0], Solvers[1]}, first, opts.SecondOpin, false); err == nil && syn.Status == "unsat" {
				cachePut(opts.CacheDir, key, cacheEntry{Status: syn.Status, Solver: syn.Solver, TimeS: syn.TimeS})
				for _, m := range ms {
					m.Status, m.Solver, m.TimeS = "unsat", syn.Solver, syn.TimeS/float64(len(ms))
				}
			}
		}(gi, ms)
	}
	gwg.Wait()
	for i, o := range vc.Obls {
		if o.Status == "unsat" && o.Group != "" {
			if opts.Progress != nil {
				opts.Progress(o)
			}
			continue
		}
		jobs <- job{i, o}
	}
	close(jobs)
	wg.Wait()
	return firstErr
}

// solveOne races the given solvers on a single obligation.
func solveOne(vc *VC, o *Obligation, base string, solvers []Solver, timeoutMs int, needTwo bool, models bool) error {
	type ans struct {
		solver string
		status string
		model  string
		t      float64
		errs   []string
	}
	script := queryScript(vc, o, models)
	results := make(chan ans, len(solvers))
	ctx, cancel := context.WithCancel(context.Background())
	defer cancel()
	file := base + ".smt2"
	if err := os.WriteFile(file, []byte(script), 0o644); err != nil {
		return err
	}
	cfile := file
	if models {
		cfile = base + ".c.smt2"
		os.WriteFile(cfile, []byte(strings.Replace(script, "(set-option :produce-models true)\n", "", 1)), 0o644)
	}
	for _, s := range solvers {
		go func(s Solver) {
			solverSlots <- struct{}{}
			defer func() { <-solverSlots }()
			if ctx.Err() != nil {
				results <- ans{solver: s.Name, status: "unknown"}
				return
			}
			f := file
			if s.Bin == "cvc5" {
				f = cfile
			}
			t0 := time.Now()
			out, _ := runSolverCtx(ctx, s, f, timeoutMs, 1)
			a, errs := parseAnswers(out)
			r := ans{solver: s.Name, status: "unknown", t: time.Since(t0).Seconds(), errs: errs}
			if len(a) > 0 {
				r.status = a[0]
			}
			if r.status == "sat" && models {
				if k := strings.Index(out, "sat"); k >= 0 {
					r.model = strings.TrimSpace(out[k+3:])
				}
			}
			results <- r
		}(s)
	}
	var got []ans
	nUnsat := 0
	// once one solver has discharged the obligation, a second opinion (thorough tier) is waited
	// for only this long: some obligations are within reach of one solver only
	var grace <-chan time.Time
collect:
	for range solvers {
		select {
		case r := <-results:
			got = append(got, r)
			if r.status == "sat" {
				break collect
			}
			if r.status == "unsat" {
				nUnsat++
				if !needTwo || nUnsat >= 2 {
					break collect
				}
				if grace == nil {
					grace = time.After(10 * time.Second)
				}
			}
		case <-grace:
			break collect
		}
	}
	cancel()
	var sat, unsat *ans
	var unsatNames []string
	for i := range got {
		switch got[i].status {
		case "sat":
			if sat == nil {
				sat = &got[i]
			}
		case "unsat":
			if unsat == nil {
				unsat = &got[i]
			}
			unsatNames = append(unsatNames, got[i].solver)
		}
	}
	if sat != nil && unsat != nil {
		return fmt.Errorf("solvers disagree on %s: %s says sat, %s says unsat", o.Name, sat.solver, unsat.solver)
	}
	switch {
	case unsat != nil:
		o.Status, o.Solver, o.TimeS = "unsat", strings.Join(unsatNames, "+"), unsat.t
	case sat != nil:
		o.Status, o.Solver, o.TimeS, o.Model = "sat", sat.solver, sat.t, sat.model
	default:
		o.Status = "unknown"
		if o.Solver == "" {
			o.Solver = "-"
		}
		var all []string
		for _, g := range got {
			if len(g.errs) > 0 {
				all = append(all, g.solver+": "+g.errs[0])
			}
		}
		if len(all) == len(solvers) && len(all) > 0 {
			return fmt.Errorf("all solvers report errors on %s (%s): %s", o.Name, file, strings.Join(all, " | "))
		}
	}
	return nil
}
