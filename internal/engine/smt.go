package engine

import (
	"bytes"
	"context"
	"fmt"
	"os"
	"os/exec"
	"path/filepath"
	"strings"
	"sync"
	"time"
)

type Solver struct {
	Name string
	Args func(timeoutMs int, file string) []string
	Bin  string
}

var Solvers = []Solver{
	{Name: "z3-5.1.0", Bin: "z3-new", Args: func(t int, f string) []string { return []string{"-smt2", fmt.Sprintf("-t:%d", t), f} }},
	{Name: "cvc5-1.0.3", Bin: "cvc5", Args: func(t int, f string) []string {
		return []string{"--incremental", "--produce-models", "--strings-exp", fmt.Sprintf("--tlimit-per=%d", t), f}
	}},
	{Name: "z3-4.8.12", Bin: "z3", Args: func(t int, f string) []string { return []string{"-smt2", fmt.Sprintf("-t:%d", t), f} }},
}

type SolveOpts struct {
	TimeoutMs  int
	WorkDir    string
	SecondOpin bool // thorough: every unsat confirmed by a second solver
	Seed       int
}

func oblQuery(o *Obligation) string {
	if o.Cover {
		return And(o.Hyp, o.Goal)
	}
	return And(o.Hyp, Not(o.Goal))
}

// batchScript renders all obligations of a VC as one incremental script.
func batchScript(vc *VC, obls []*Obligation, models bool) string {
	var b strings.Builder
	if models {
		b.WriteString("(set-option :produce-models true)\n")
	}
	b.WriteString(vc.Prelude())
	for _, o := range obls {
		b.WriteString("(push 1)\n")
		fmt.Fprintf(&b, "(assert %s)\n", oblQuery(o))
		b.WriteString("(check-sat)\n")
		if models {
			b.WriteString("(get-model)\n")
		}
		b.WriteString("(pop 1)\n")
	}
	return b.String()
}

func runSolver(s Solver, file string, timeoutMs int, nQueries int) (string, error) {
	return runSolverCtx(context.Background(), s, file, timeoutMs, nQueries)
}

func runSolverCtx(parent context.Context, s Solver, file string, timeoutMs int, nQueries int) (string, error) {
	hard := time.Duration(timeoutMs*nQueries+10000) * time.Millisecond
	ctx, cancel := context.WithTimeout(parent, hard)
	defer cancel()
	cmd := exec.CommandContext(ctx, s.Bin, s.Args(timeoutMs, file)...)
	var out bytes.Buffer
	cmd.Stdout = &out
	cmd.Stderr = &out
	err := cmd.Run()
	if ctx.Err() != nil {
		return out.String(), fmt.Errorf("hard timeout")
	}
	// z3 exits non-zero on (error ...) lines; we parse the output regardless
	_ = err
	return out.String(), nil
}

// parseAnswers extracts the check-sat answers (in order) and any error lines.
func parseAnswers(out string) (answers []string, errs []string) {
	for _, l := range strings.Split(out, "\n") {
		t := strings.TrimSpace(l)
		switch {
		case t == "sat" || t == "unsat" || t == "unknown" || t == "timeout":
			answers = append(answers, t)
		case strings.HasPrefix(t, "(error"):
			errs = append(errs, t)
		}
	}
	return
}

// Solve discharges all obligations of a VC.
func Solve(vc *VC, opts SolveOpts) error {
	if len(vc.Obls) == 0 {
		return nil
	}
	if opts.TimeoutMs == 0 {
		opts.TimeoutMs = 10000
	}
	dir := opts.WorkDir
	base := filepath.Join(dir, sanitize(vc.Unit))
	batchTimeout := opts.TimeoutMs
	if batchTimeout > 3000 {
		batchTimeout = 3000
	}
	const chunk = 8
	type batchRes struct {
		solver  string
		lo      int
		answers []string
		errs    []string
		dur     float64
	}
	batchSolvers := []Solver{Solvers[0], Solvers[1]}
	var jobs int
	resC := make(chan batchRes, 2*(len(vc.Obls)/chunk+1))
	sem0 := make(chan struct{}, 14)
	for lo := 0; lo < len(vc.Obls); lo += chunk {
		hi := lo + chunk
		if hi > len(vc.Obls) {
			hi = len(vc.Obls)
		}
		file := fmt.Sprintf("%s.b%d.smt2", base, lo)
		if err := os.WriteFile(file, []byte(batchScript(vc, vc.Obls[lo:hi], false)), 0o644); err != nil {
			return err
		}
		for _, bs := range batchSolvers {
			jobs++
			go func(bs Solver, lo, n int, file string) {
				sem0 <- struct{}{}
				defer func() { <-sem0 }()
				t1 := time.Now()
				out, _ := runSolver(bs, file, batchTimeout, n)
				a, e := parseAnswers(out)
				resC <- batchRes{bs.Name, lo, a, e, time.Since(t1).Seconds()}
			}(bs, lo, hi-lo, file)
		}
	}
	for _, o := range vc.Obls {
		o.Status = "unknown"
		o.Solver = ""
	}
	errCount := map[int][]string{}
	for j := 0; j < jobs; j++ {
		b := <-resC
		if len(b.errs) > 0 {
			errCount[b.lo] = append(errCount[b.lo], b.solver+": "+b.errs[0])
			continue
		}
		for k, a := range b.answers {
			i := b.lo + k
			if i >= len(vc.Obls) || (a != "sat" && a != "unsat") {
				continue
			}
			o := vc.Obls[i]
			if (o.Status == "sat" || o.Status == "unsat") && o.Status != a {
				return fmt.Errorf("solvers disagree on %s", o.Name)
			}
			if o.Status == "unknown" {
				o.Status, o.Solver, o.TimeS = a, b.solver, b.dur/float64(len(b.answers))
			} else if a == "unsat" {
				o.Solver += "+" + b.solver
			}
		}
	}
	for lo, es := range errCount {
		if len(es) == len(batchSolvers) {
			return fmt.Errorf("solver error in %s.b%d.smt2: %s", base, lo, strings.Join(es, "; "))
		}
	}
	for _, o := range vc.Obls {
		if o.Solver == "" {
			o.Solver = "-"
		}
	}
	// retry everything that is not the expected answer individually, racing the other solvers
	var wg sync.WaitGroup
	sem := make(chan struct{}, 8)
	var mu sync.Mutex
	var firstErr error
	for i, o := range vc.Obls {
		want := "unsat"
		if o.Cover {
			want = "sat"
		}
		need := o.Status != want
		if o.Cover && o.Status == "unknown" {
			need = false // reachability covers with quantified hypotheses are rarely decided; do not escalate
		}
		if opts.SecondOpin && !o.Cover && o.Status == "unsat" && !strings.Contains(o.Solver, "+") {
			need = true
		}
		if !need {
			continue
		}
		wg.Add(1)
		go func(i int, o *Obligation) {
			defer wg.Done()
			sem <- struct{}{}
			defer func() { <-sem }()
			if err := solveOne(vc, o, fmt.Sprintf("%s.%d", base, i), opts); err != nil {
				mu.Lock()
				if firstErr == nil {
					firstErr = err
				}
				mu.Unlock()
			}
		}(i, o)
	}
	wg.Wait()
	return firstErr
}

// solveOne races all solvers on a single obligation and extracts a model on sat.
func solveOne(vc *VC, o *Obligation, base string, opts SolveOpts) error {
	type ans struct {
		solver string
		status string
		model  string
		t      float64
		errs   []string
	}
	script := batchScript(vc, []*Obligation{o}, true)
	results := make(chan ans, len(Solvers))
	ctx, cancel := context.WithCancel(context.Background())
	defer cancel()
	for si, s := range Solvers {
		go func(si int, s Solver) {
			file := fmt.Sprintf("%s.%d.smt2", base, si)
			sc := script
			if s.Bin == "cvc5" {
				sc = strings.Replace(sc, "(set-option :produce-models true)\n", "", 1)
			}
			os.WriteFile(file, []byte(sc), 0o644)
			t0 := time.Now()
			out, _ := runSolverCtx(ctx, s, file, opts.TimeoutMs*3, 1)
			a, errs := parseAnswers(out)
			r := ans{solver: s.Name, status: "unknown", t: time.Since(t0).Seconds(), errs: errs}
			if len(a) > 0 {
				r.status = a[0]
			}
			if r.status == "sat" {
				if k := strings.Index(out, "sat"); k >= 0 {
					r.model = strings.TrimSpace(out[k+3:])
				}
			}
			results <- r
		}(si, s)
	}
	var got []ans
	nUnsat := 0
	for range Solvers {
		r := <-results
		got = append(got, r)
		if r.status == "sat" {
			break
		}
		if r.status == "unsat" {
			nUnsat++
			if !opts.SecondOpin || nUnsat >= 2 {
				break
			}
		}
	}
	cancel()
	// definite answers win; disagreement between definite answers is an engine error
	var sat, unsat *ans
	for i := range got {
		switch got[i].status {
		case "sat":
			if sat == nil {
				sat = &got[i]
			}
		case "unsat":
			if unsat == nil {
				unsat = &got[i]
			}
		}
	}
	if sat != nil && unsat != nil {
		return fmt.Errorf("solvers disagree on %s: %s says sat, %s says unsat", o.Name, sat.solver, unsat.solver)
	}
	switch {
	case unsat != nil:
		o.Status, o.Solver, o.TimeS = "unsat", unsat.solver, unsat.t
		if opts.SecondOpin {
			n := 0
			var names []string
			for _, g := range got {
				if g.status == "unsat" {
					n++
					names = append(names, g.solver)
				}
			}
			o.Solver = strings.Join(names, "+")
		}
	case sat != nil:
		o.Status, o.Solver, o.TimeS, o.Model = "sat", sat.solver, sat.t, sat.model
	default:
		o.Status = "unknown"
		var all []string
		for _, g := range got {
			if len(g.errs) > 0 {
				all = append(all, g.solver+": "+g.errs[0])
			}
		}
		if len(all) == len(Solvers) {
			return fmt.Errorf("all solvers report errors on %s: %s", o.Name, strings.Join(all, " | "))
		}
	}
	return nil
}
