package engine

import (
	"fmt"
	"strings"
)

// ---- spec expression AST ----

type SExpr interface{}

type SIdent struct{ Name string }
type SLit struct{ Kind, Val string } // int, string, bool, nil
type SUnary struct {
	Op string
	X  SExpr
}
type SBinary struct {
	Op   string
	X, Y SExpr
}
type SCond struct{ C, A, B SExpr }
type SSel struct {
	X    SExpr
	Name string
}
type SIndex struct{ X, I SExpr }
type SSlice struct{ X, Lo, Hi SExpr }
type SCall struct {
	Fun  string
	Args []SExpr
}
type SVar struct{ Name, Type string }
type SQuant struct {
	Forall bool
	Vars   []SVar
	Body   SExpr
}
type SLet struct {
	Name string
	X    SExpr
	Body SExpr
}

type tok struct {
	k string // id, int, str, op, eof
	s string
}

func lexSpec(src string) ([]tok, error) {
	var out []tok
	i := 0
	for i < len(src) {
		c := src[i]
		switch {
		case c == ' ' || c == '\t' || c == '\n' || c == '\r':
			i++
		case c == '_' || c == '$' || (c >= 'a' && c <= 'z') || (c >= 'A' && c <= 'Z'):
			j := i + 1
			for j < len(src) && (src[j] == '_' || src[j] == '$' || (src[j] >= 'a' && src[j] <= 'z') || (src[j] >= 'A' && src[j] <= 'Z') || (src[j] >= '0' && src[j] <= '9')) {
				j++
			}
			out = append(out, tok{"id", src[i:j]})
			i = j
		case c >= '0' && c <= '9':
			j := i + 1
			for j < len(src) && ((src[j] >= '0' && src[j] <= '9') || src[j] == 'x' || (src[j] >= 'a' && src[j] <= 'f') || (src[j] >= 'A' && src[j] <= 'F')) {
				j++
			}
			out = append(out, tok{"int", src[i:j]})
			i = j
		case c == '"':
			j := i + 1
			var b strings.Builder
			for j < len(src) && src[j] != '"' {
				if src[j] == '\\' && j+1 < len(src) {
					j++
					switch src[j] {
					case 'n':
						b.WriteByte('\n')
					case 't':
						b.WriteByte('\t')
					default:
						b.WriteByte(src[j])
					}
				} else {
					b.WriteByte(src[j])
				}
				j++
			}
			if j >= len(src) {
				return nil, fmt.Errorf("unterminated string in %q", src)
			}
			out = append(out, tok{"str", b.String()})
			i = j + 1
		case c == '\'':
			if i+2 < len(src) && src[i+2] == '\'' {
				out = append(out, tok{"int", fmt.Sprintf("%d", src[i+1])})
				i += 3
			} else {
				return nil, fmt.Errorf("bad char literal in %q", src)
			}
		default:
			ops := []string{"<==>", "==>", "==", "!=", "<=", ">=", "&&", "||", "::", "<<", ">>", "&^"}
			matched := false
			for _, op := range ops {
				if strings.HasPrefix(src[i:], op) {
					out = append(out, tok{"op", op})
					i += len(op)
					matched = true
					break
				}
			}
			if !matched {
				out = append(out, tok{"op", string(c)})
				i++
			}
		}
	}
	out = append(out, tok{"eof", ""})
	return out, nil
}

type specParser struct {
	toks []tok
	p    int
	src  string
}

func ParseSpec(src string) (e SExpr, err error) {
	toks, err := lexSpec(src)
	if err != nil {
		return nil, err
	}
	ps := &specParser{toks: toks, src: src}
	defer func() {
		if r := recover(); r != nil {
			if pe, ok := r.(parseErr); ok {
				err = fmt.Errorf("%s in spec %q", string(pe), src)
				return
			}
			panic(r)
		}
	}()
	e = ps.expr()
	if ps.peek().k != "eof" {
		ps.fail("unexpected token " + ps.peek().s)
	}
	return e, nil
}

type parseErr string

func (ps *specParser) fail(msg string) { panic(parseErr(msg)) }
func (ps *specParser) peek() tok       { return ps.toks[ps.p] }
func (ps *specParser) next() tok       { t := ps.toks[ps.p]; ps.p++; return t }
func (ps *specParser) isOp(s string) bool {
	t := ps.peek()
	return t.k == "op" && t.s == s
}
func (ps *specParser) isId(s string) bool {
	t := ps.peek()
	return t.k == "id" && t.s == s
}
func (ps *specParser) expectOp(s string) {
	if !ps.isOp(s) {
		ps.fail("expected " + s + " got " + ps.peek().s)
	}
	ps.p++
}

func (ps *specParser) expr() SExpr {
	if ps.isId("forall") || ps.isId("exists") {
		fa := ps.next().s == "forall"
		var vars []SVar
		for {
			if ps.peek().k != "id" {
				ps.fail("expected variable name in quantifier")
			}
			name := ps.next().s
			typ := ps.typeText()
			vars = append(vars, SVar{name, typ})
			if ps.isOp(",") {
				ps.p++
				continue
			}
			break
		}
		ps.expectOp("::")
		body := ps.expr()
		return &SQuant{Forall: fa, Vars: vars, Body: body}
	}
	if ps.isId("let") {
		ps.p++
		name := ps.next().s
		ps.expectOp("=")
		x := ps.iff()
		if !ps.isId("in") {
			ps.fail("expected 'in' after let binding")
		}
		ps.p++
		body := ps.expr()
		return &SLet{Name: name, X: x, Body: body}
	}
	return ps.iff()
}

// typeText consumes a Go type expression and returns its text.
func (ps *specParser) typeText() string {
	var b strings.Builder
	for {
		t := ps.peek()
		switch {
		case t.k == "op" && (t.s == "*" || t.s == "[" || t.s == "]" || t.s == "."):
			b.WriteString(t.s)
			ps.p++
		case t.k == "id":
			b.WriteString(t.s)
			ps.p++
			// an identifier ends the type unless followed by '.' or '[' (map[K]V)
			if ps.isOp(".") {
				continue
			}
			if t.s == "map" && ps.isOp("[") {
				continue
			}
			// after "map[K]" continue with V
			return b.String()
		default:
			ps.fail("bad type expression")
		}
	}
}

func (ps *specParser) iff() SExpr {
	x := ps.implies()
	for ps.isOp("<==>") {
		ps.p++
		y := ps.implies()
		x = &SBinary{"<==>", x, y}
	}
	return x
}

func (ps *specParser) implies() SExpr {
	x := ps.cond()
	if ps.isOp("==>") {
		ps.p++
		var y SExpr
		if ps.isId("forall") || ps.isId("exists") || ps.isId("let") {
			y = ps.expr()
		} else {
			y = ps.implies()
		}
		return &SBinary{"==>", x, y}
	}
	return x
}

func (ps *specParser) cond() SExpr {
	c := ps.or()
	if ps.isOp("?") {
		ps.p++
		a := ps.cond()
		ps.expectOp(":")
		b := ps.cond()
		return &SCond{c, a, b}
	}
	return c
}

func (ps *specParser) or() SExpr {
	x := ps.and()
	for ps.isOp("||") {
		ps.p++
		x = &SBinary{"||", x, ps.and()}
	}
	return x
}

func (ps *specParser) and() SExpr {
	x := ps.cmp()
	for ps.isOp("&&") {
		ps.p++
		x = &SBinary{"&&", x, ps.cmp()}
	}
	return x
}

func (ps *specParser) cmp() SExpr {
	x := ps.add()
	for {
		t := ps.peek()
		if t.k == "op" && (t.s == "==" || t.s == "!=" || t.s == "<" || t.s == "<=" || t.s == ">" || t.s == ">=") {
			ps.p++
			x = &SBinary{t.s, x, ps.add()}
			continue
		}
		return x
	}
}

func (ps *specParser) add() SExpr {
	x := ps.mul()
	for {
		t := ps.peek()
		if t.k == "op" && (t.s == "+" || t.s == "-" || t.s == "|" || t.s == "^") {
			ps.p++
			x = &SBinary{t.s, x, ps.mul()}
			continue
		}
		return x
	}
}

func (ps *specParser) mul() SExpr {
	x := ps.unary()
	for {
		t := ps.peek()
		if t.k == "op" && (t.s == "*" || t.s == "/" || t.s == "%" || t.s == "&" || t.s == "<<" || t.s == ">>" || t.s == "&^") {
			ps.p++
			x = &SBinary{t.s, x, ps.unary()}
			continue
		}
		return x
	}
}

func (ps *specParser) unary() SExpr {
	if ps.isOp("!") {
		ps.p++
		return &SUnary{"!", ps.unary()}
	}
	if ps.isOp("-") {
		ps.p++
		return &SUnary{"-", ps.unary()}
	}
	if ps.isOp("^") {
		ps.p++
		return &SUnary{"^", ps.unary()}
	}
	return ps.postfix()
}

func (ps *specParser) postfix() SExpr {
	x := ps.primary()
	for {
		switch {
		case ps.isOp("."):
			ps.p++
			t := ps.next()
			if t.k != "id" && t.k != "int" {
				ps.fail("expected field name after '.'")
			}
			x = &SSel{x, t.s}
		case ps.isOp("["):
			ps.p++
			if ps.isOp(":") {
				ps.p++
				hi := ps.expr()
				ps.expectOp("]")
				x = &SSlice{x, nil, hi}
				continue
			}
			i := ps.expr()
			if ps.isOp(":") {
				ps.p++
				var hi SExpr
				if !ps.isOp("]") {
					hi = ps.expr()
				}
				ps.expectOp("]")
				x = &SSlice{x, i, hi}
				continue
			}
			ps.expectOp("]")
			x = &SIndex{x, i}
		case ps.isOp("("):
			id, ok := x.(*SIdent)
			if !ok {
				// method-style call on a selector: x.f(args) => call "f" with receiver first
				sel, ok2 := x.(*SSel)
				if !ok2 {
					ps.fail("call of non-identifier")
				}
				ps.p++
				args := []SExpr{sel.X}
				args = append(args, ps.args()...)
				x = &SCall{Fun: "." + sel.Name, Args: args}
				continue
			}
			ps.p++
			x = &SCall{Fun: id.Name, Args: ps.args()}
		default:
			return x
		}
	}
}

func (ps *specParser) args() []SExpr {
	var args []SExpr
	if ps.isOp(")") {
		ps.p++
		return args
	}
	for {
		args = append(args, ps.expr())
		if ps.isOp(",") {
			ps.p++
			continue
		}
		ps.expectOp(")")
		return args
	}
}

func (ps *specParser) primary() SExpr {
	t := ps.next()
	switch t.k {
	case "id":
		switch t.s {
		case "forall", "exists", "let":
			ps.p--
			return ps.expr()
		case "true", "false":
			return &SLit{"bool", t.s}
		case "nil":
			return &SLit{"nil", ""}
		}
		return &SIdent{t.s}
	case "int":
		return &SLit{"int", t.s}
	case "str":
		return &SLit{"string", t.s}
	case "op":
		if t.s == "(" {
			e := ps.expr()
			ps.expectOp(")")
			return e
		}
	}
	ps.fail("unexpected token " + t.s)
	return nil
}

// ---- printing and splitting ----

func SpecString(x SExpr) string {
	switch n := x.(type) {
	case *SIdent:
		return n.Name
	case *SLit:
		switch n.Kind {
		case "string":
			return fmt.Sprintf("%q", n.Val)
		case "nil":
			return "nil"
		}
		return n.Val
	case *SUnary:
		return n.Op + SpecString(n.X)
	case *SBinary:
		return "(" + SpecString(n.X) + " " + n.Op + " " + SpecString(n.Y) + ")"
	case *SCond:
		return "(" + SpecString(n.C) + " ? " + SpecString(n.A) + " : " + SpecString(n.B) + ")"
	case *SSel:
		return SpecString(n.X) + "." + n.Name
	case *SIndex:
		return SpecString(n.X) + "[" + SpecString(n.I) + "]"
	case *SSlice:
		lo, hi := "", ""
		if n.Lo != nil {
			lo = SpecString(n.Lo)
		}
		if n.Hi != nil {
			hi = SpecString(n.Hi)
		}
		return SpecString(n.X) + "[" + lo + ":" + hi + "]"
	case *SCall:
		var as []string
		for _, a := range n.Args {
			as = append(as, SpecString(a))
		}
		return n.Fun + "(" + strings.Join(as, ", ") + ")"
	case *SQuant:
		q := "forall"
		if !n.Forall {
			q = "exists"
		}
		var vs []string
		for _, v := range n.Vars {
			vs = append(vs, v.Name+" "+v.Type)
		}
		return "(" + q + " " + strings.Join(vs, ", ") + " :: " + SpecString(n.Body) + ")"
	case *SLet:
		return "(let " + n.Name + " = " + SpecString(n.X) + " in " + SpecString(n.Body) + ")"
	}
	return "?"
}

// SplitConj splits `H ==> (A && B)` / `A && B` into separate clauses so that each
// conjunct becomes its own obligation (quantifier-free parts then yield models).
func SplitConj(x SExpr) []SExpr {
	switch n := x.(type) {
	case *SBinary:
		switch n.Op {
		case "&&":
			return append(SplitConj(n.X), SplitConj(n.Y)...)
		case "==>":
			var out []SExpr
			for _, p := range SplitConj(n.Y) {
				out = append(out, &SBinary{"==>", n.X, p})
			}
			return out
		}
	case *SLet:
		var out []SExpr
		for _, p := range SplitConj(n.Body) {
			out = append(out, &SLet{n.Name, n.X, p})
		}
		return out
	}
	return []SExpr{x}
}
