package engine

import (
	"fmt"
	"go/types"
	"os"
	"regexp"
	"strconv"
	"strings"

	"golang.org/x/tools/go/ssa"
)

// Clause is one requires/ensures/invariant clause.
type Clause struct {
	Text  string
	Expr  SExpr
	Label string // optional stable label: `ensures [label] expr`
	KF    string // known-finding id: the clause is expected to FAIL (`ensures [label] known-finding F1 expr`)
	Props []string
	Line  int
	Thorough bool // only checked in the thorough tier (expensive obligations)
	After    string // keep clauses: active only at joins after this call ("callee#n")
	Before   string // keep clauses: active only at joins before this call
}

type LoopSpec struct {
	Invariants []Clause
	Decreases  []Clause
	Modifies   []Clause
	Unroll     int // bounded mode: unroll this many times (0 = use invariant)
}

type CallAssert struct {
	Callee  string
	Ordinal int // 0 = every call
	Clause  Clause
}

type Contract struct {
	Key      string
	Pkg      *types.Package
	Fn       *ssa.Function
	Props    []string
	Requires []Clause
	Ensures  []Clause
	Keeps    []Clause // join invariants: asserted and assumed at every control-flow join and loop head
	Modifies []Clause // location expressions
	ModAll   bool     // `modifies *` (no frame check, callers havoc nothing extra: only for trusted externs)
	ModStatic bool    // `modifies @writes`: the statically computed set of heap variables the body may write (whole variables)
	Loops    map[int]*LoopSpec
	Asserts  []CallAssert
	BV       bool
	Trusted  bool // contract assumed, body not verified (listed in evidence)
	NoInline bool
	Inline   bool // verify nothing; callers inline the body
	Bounded  int  // >0: bounded mode with this unroll bound
	Sizes    []Clause
	File     string
	Line     int
	Extern   bool
	Params   []SVar // for extern contracts without SSA body
	Results  []SVar
	Logs     string // call class under which calls to this function are logged
	Flags    []string
}

// ServesProperty: the contract (or one of its clauses) counts for property p.
func (c *Contract) ServesProperty(p string) bool {
	for _, q := range c.Props {
		if q == p {
			return true
		}
	}
	for _, cl := range c.Ensures {
		for _, q := range cl.Props {
			if q == p {
				return true
			}
		}
	}
	return false
}

type PureFunc struct {
	Name   string
	Pkg    *types.Package
	Params []SVar
	Body   SExpr
	Text   string
}

type Lemma struct {
	Name   string
	Pkg    *types.Package
	Props  []string
	Vars   []SVar
	Hyps   []Clause
	Goal   Clause
	BV     bool
	File   string
	Line   int
	Only   string // restrict to solver
}

func pureKey(pkg *types.Package, name string) string {
	if pkg == nil {
		return name
	}
	return pkg.Name() + "." + name
}

var clauseKW = map[string]bool{"keep": true, "props": true, "requires": true, "ensures": true, "modifies": true, "loop": true,
	"bitvector": true, "trusted": true, "at": true, "bounded": true, "inline": true, "noinline": true, "logs": true,
	"hyp": true, "goal": true, "vars": true, "solver": true, "flag": true}

type rawItem struct {
	head  string // func / pure / lemma / extern
	rest  string
	lines []rawLine
	file  string
	line  int
}
type rawLine struct {
	text string
	line int
}

var tmplArg = regexp.MustCompile(`\$[A-Za-z_][A-Za-z0-9_]*`)

// readContractLines extracts //@ lines, expands templates.
func readContractLines(file string) ([]rawLine, error) {
	data, err := os.ReadFile(file)
	if err != nil {
		return nil, err
	}
	var lines []rawLine
	for i, l := range strings.Split(string(data), "\n") {
		t := strings.TrimSpace(l)
		if !strings.HasPrefix(t, "//@") {
			continue
		}
		t = strings.TrimPrefix(t, "//@")
		if strings.TrimSpace(t) == "" {
			continue
		}
		if strings.HasPrefix(strings.TrimSpace(t), "--") {
			continue // comment
		}
		// strip trailing comments introduced by " -- "
		if k := strings.Index(t, " -- "); k >= 0 {
			t = t[:k]
		}
		lines = append(lines, rawLine{strings.TrimRight(t, " \t"), i + 1})
	}
	// template expansion
	type tmpl struct {
		params []string
		body   []rawLine
	}
	tmpls := map[string]*tmpl{}
	var out []rawLine
	var expand func(lines []rawLine, depth int) error
	expand = func(lines []rawLine, depth int) error {
		if depth > 8 {
			return fmt.Errorf("%s: template expansion too deep", file)
		}
		for i := 0; i < len(lines); i++ {
			t := strings.TrimSpace(lines[i].text)
			if strings.HasPrefix(t, "template ") {
				m := regexp.MustCompile(`^template\s+(\w+)\((.*)\)$`).FindStringSubmatch(t)
				if m == nil {
					return fmt.Errorf("%s:%d: bad template header", file, lines[i].line)
				}
				tp := &tmpl{}
				for _, p := range strings.Split(m[2], ",") {
					tp.params = append(tp.params, strings.TrimSpace(p))
				}
				i++
				for i < len(lines) && strings.TrimSpace(lines[i].text) != "end" {
					tp.body = append(tp.body, lines[i])
					i++
				}
				tmpls[m[1]] = tp
				continue
			}
			if strings.HasPrefix(t, "apply ") {
				m := regexp.MustCompile(`^apply\s+(\w+)\((.*)\)$`).FindStringSubmatch(t)
				if m == nil {
					return fmt.Errorf("%s:%d: bad apply", file, lines[i].line)
				}
				tp := tmpls[m[1]]
				if tp == nil {
					return fmt.Errorf("%s:%d: unknown template %s", file, lines[i].line, m[1])
				}
				args := splitTopLevel(m[2])
				if len(args) != len(tp.params) {
					return fmt.Errorf("%s:%d: template %s expects %d args", file, lines[i].line, m[1], len(tp.params))
				}
				sub := map[string]string{}
				for j, p := range tp.params {
					sub["$"+p] = strings.TrimSpace(args[j])
				}
				var body []rawLine
				for _, bl := range tp.body {
					txt := tmplArg.ReplaceAllStringFunc(bl.text, func(s string) string {
						if v, ok := sub[s]; ok {
							return v
						}
						return s
					})
					body = append(body, rawLine{txt, lines[i].line})
				}
				if err := expand(body, depth+1); err != nil {
					return err
				}
				continue
			}
			out = append(out, lines[i])
		}
		return nil
	}
	if err := expand(lines, 0); err != nil {
		return nil, err
	}
	return out, nil
}

func splitTopLevel(s string) []string {
	var out []string
	depth := 0
	start := 0
	instr := false
	for i := 0; i < len(s); i++ {
		c := s[i]
		if instr {
			if c == '"' {
				instr = false
			}
			continue
		}
		switch c {
		case '"':
			instr = true
		case '(', '[':
			depth++
		case ')', ']':
			depth--
		case ',':
			if depth == 0 {
				out = append(out, s[start:i])
				start = i + 1
			}
		}
	}
	out = append(out, s[start:])
	return out
}

// groupItems groups lines into items (func/pure/lemma/extern) with clause lines,
// joining continuation lines.
func groupItems(file string, lines []rawLine) ([]rawItem, error) {
	var items []rawItem
	for _, l := range lines {
		t := strings.TrimSpace(l.text)
		w := firstWord(t)
		switch w {
		case "func", "pure", "lemma", "extern", "const", "ghostvar":
			items = append(items, rawItem{head: w, rest: strings.TrimSpace(t[len(w):]), file: file, line: l.line})
			continue
		}
		if len(items) == 0 {
			return nil, fmt.Errorf("%s:%d: clause outside of an item: %s", file, l.line, t)
		}
		it := &items[len(items)-1]
		if clauseKW[w] {
			it.lines = append(it.lines, rawLine{t, l.line})
		} else if it.head == "pure" || it.head == "const" {
			it.rest += " " + t
		} else if len(it.lines) > 0 {
			it.lines[len(it.lines)-1].text += " " + t
		} else {
			return nil, fmt.Errorf("%s:%d: unexpected line: %s", file, l.line, t)
		}
	}
	return items, nil
}

func firstWord(s string) string {
	for i := 0; i < len(s); i++ {
		if s[i] == ' ' || s[i] == '\t' {
			return s[:i]
		}
	}
	return s
}

var labelRe = regexp.MustCompile(`^\[([A-Za-z0-9_.\-]+)\]\s*`)
var kfRe = regexp.MustCompile(`^known-finding\s+(\S+)\s+`)
var propsRe = regexp.MustCompile(`^\{((?:C[0-9]+[ ,]*)+)\}\s*`)

func parseClause(text string, line int) (Clause, error) {
	c := Clause{Line: line}
	t := strings.TrimSpace(text)
	if m := labelRe.FindStringSubmatch(t); m != nil {
		c.Label = m[1]
		t = t[len(m[0]):]
	}
	if strings.HasPrefix(t, "@thorough") {
		c.Thorough = true
		t = strings.TrimSpace(t[len("@thorough"):])
	}
	if m := propsRe.FindStringSubmatch(t); m != nil {
		c.Props = strings.Fields(strings.ReplaceAll(m[1], ",", " "))
		t = t[len(m[0]):]
	}
	if m := kfRe.FindStringSubmatch(t); m != nil {
		c.KF = m[1]
		t = t[len(m[0]):]
	}
	c.Text = t
	e, err := ParseSpec(t)
	if err != nil {
		return c, fmt.Errorf("line %d: %v", line, err)
	}
	c.Expr = e
	return c, nil
}

func parseParams(s string) []SVar {
	var out []SVar
	s = strings.TrimSpace(s)
	if s == "" {
		return nil
	}
	for _, p := range splitTopLevel(s) {
		p = strings.TrimSpace(p)
		k := strings.IndexAny(p, " \t")
		if k < 0 {
			out = append(out, SVar{Name: p})
			continue
		}
		out = append(out, SVar{Name: p[:k], Type: strings.TrimSpace(p[k:])})
	}
	return out
}

// LoadContracts parses one contract file for package pkg.
func (prog *Program) LoadContracts(file string, pkg *types.Package, extern bool) error {
	lines, err := readContractLines(file)
	if err != nil {
		return err
	}
	items, err := groupItems(file, lines)
	if err != nil {
		return err
	}
	for _, it := range items {
		switch it.head {
		case "pure":
			// pure name(a T, b U) = expr
			m := regexp.MustCompile(`^(\w+)\((.*?)\)\s*=\s*(.*)$`).FindStringSubmatch(it.rest)
			if m == nil {
				return fmt.Errorf("%s:%d: bad pure definition: %s", file, it.line, it.rest)
			}
			body, err := ParseSpec(m[3])
			if err != nil {
				return fmt.Errorf("%s:%d: %v", file, it.line, err)
			}
			pf := &PureFunc{Name: m[1], Pkg: pkg, Params: parseParams(m[2]), Body: body, Text: m[3]}
			prog.Pures[pureKey(pkg, pf.Name)] = pf
			if _, dup := prog.Pures[pf.Name]; !dup {
				prog.Pures[pf.Name] = pf
			}
		case "lemma":
			lm := &Lemma{Name: strings.TrimSpace(it.rest), Pkg: pkg, File: file, Line: it.line}
			for _, l := range it.lines {
				w := firstWord(l.text)
				rest := strings.TrimSpace(l.text[len(w):])
				switch w {
				case "props":
					lm.Props = strings.Fields(rest)
				case "vars":
					lm.Vars = parseParams(rest)
				case "bitvector":
					lm.BV = true
				case "solver":
					lm.Only = rest
				case "hyp":
					c, err := parseClause(rest, l.line)
					if err != nil {
						return fmt.Errorf("%s: %v", file, err)
					}
					lm.Hyps = append(lm.Hyps, c)
				case "goal":
					c, err := parseClause(rest, l.line)
					if err != nil {
						return fmt.Errorf("%s: %v", file, err)
					}
					lm.Goal = c
				default:
					return fmt.Errorf("%s:%d: bad lemma clause %s", file, l.line, w)
				}
			}
			prog.Lemmas = append(prog.Lemmas, lm)
		case "func", "extern":
			c := &Contract{Key: strings.TrimSpace(it.rest), Pkg: pkg, Loops: map[int]*LoopSpec{}, File: file, Line: it.line, Extern: it.head == "extern" || extern}
			if it.head == "extern" {
				// extern full.Name(a T, b U) (r V)
				m := regexp.MustCompile(`^(\S+?)\((.*?)\)\s*(?:\((.*)\))?$`).FindStringSubmatch(c.Key)
				if m == nil {
					return fmt.Errorf("%s:%d: bad extern header %q", file, it.line, c.Key)
				}
				c.Key = m[1]
				c.Params = parseParams(m[2])
				c.Results = parseParams(m[3])
				c.Trusted = true
			}
			for _, l := range it.lines {
				w := firstWord(l.text)
				rest := strings.TrimSpace(l.text[len(w):])
				switch w {
				case "props":
					c.Props = strings.Fields(rest)
				case "bitvector":
					c.BV = true
				case "trusted":
					c.Trusted = true
				case "inline":
					c.Inline = true
				case "noinline":
					c.NoInline = true
				case "logs":
					c.Logs = rest
				case "flag":
					c.Flags = append(c.Flags, strings.Fields(rest)...)
				case "bounded":
					n, err := strconv.Atoi(firstWord(rest))
					if err != nil {
						return fmt.Errorf("%s:%d: bounded needs a number", file, l.line)
					}
					c.Bounded = n
					if r2 := strings.TrimSpace(rest[len(firstWord(rest)):]); r2 != "" {
						cl, err := parseClause(r2, l.line)
						if err != nil {
							return fmt.Errorf("%s: %v", file, err)
						}
						c.Sizes = append(c.Sizes, cl)
					}
				case "keep":
					var after, before string
					if m := regexp.MustCompile(`^(after|before)\s+([\w.$]+#\d+)\s+`).FindStringSubmatch(rest); m != nil {
						if m[1] == "after" {
							after = m[2]
						} else {
							before = m[2]
						}
						rest = rest[len(m[0]):]
					}
					cl, err := parseClause(rest, l.line)
					cl.After, cl.Before = after, before
					if err != nil {
						return fmt.Errorf("%s: %v", file, err)
					}
					c.Keeps = append(c.Keeps, cl)
				case "requires", "ensures":
					cl, err := parseClause(rest, l.line)
					if err != nil {
						return fmt.Errorf("%s: %v", file, err)
					}
					if w == "requires" {
						c.Requires = append(c.Requires, cl)
					} else {
						c.Ensures = append(c.Ensures, cl)
					}
				case "modifies":
					if rest == "*" {
						c.ModAll = true
						break
					}
					if rest == "@writes" {
						c.ModStatic = true
						break
					}
					for _, part := range splitTopLevel(rest) {
						cl, err := parseClause(part, l.line)
						if err != nil {
							return fmt.Errorf("%s: %v", file, err)
						}
						c.Modifies = append(c.Modifies, cl)
					}
				case "loop":
					// loop N invariant e | loop N decreases e | loop N unroll K
					f := strings.Fields(rest)
					if len(f) < 3 {
						return fmt.Errorf("%s:%d: bad loop clause", file, l.line)
					}
					n, err := strconv.Atoi(f[0])
					if err != nil {
						return fmt.Errorf("%s:%d: bad loop ordinal", file, l.line)
					}
					ls := c.Loops[n]
					if ls == nil {
						ls = &LoopSpec{}
						c.Loops[n] = ls
					}
					body := strings.TrimSpace(strings.TrimPrefix(strings.TrimSpace(rest[len(f[0]):]), f[1]))
					switch f[1] {
					case "invariant":
						cl, err := parseClause(body, l.line)
						if err != nil {
							return fmt.Errorf("%s: %v", file, err)
						}
						ls.Invariants = append(ls.Invariants, cl)
					case "decreases":
						cl, err := parseClause(body, l.line)
						if err != nil {
							return fmt.Errorf("%s: %v", file, err)
						}
						ls.Decreases = append(ls.Decreases, cl)
					case "modifies":
						for _, part := range splitTopLevel(body) {
							cl, err := parseClause(part, l.line)
							if err != nil {
								return fmt.Errorf("%s: %v", file, err)
							}
							ls.Modifies = append(ls.Modifies, cl)
						}
					case "unroll":
						return fmt.Errorf("%s:%d: loop unrolling is not implemented; give an invariant", file, l.line)
					default:
						return fmt.Errorf("%s:%d: bad loop clause kind %s", file, l.line, f[1])
					}
				case "at":
					// at call NAME#n assert e
					m := regexp.MustCompile(`^call\s+([\w.$()*/:\-]+?)(?:#(\d+))?\s+assert\s+(.*)$`).FindStringSubmatch(rest)
					if m == nil {
						return fmt.Errorf("%s:%d: bad 'at' clause", file, l.line)
					}
					ord := 0
					if m[2] != "" {
						ord, _ = strconv.Atoi(m[2])
					}
					cl, err := parseClause(m[3], l.line)
					if err != nil {
						return fmt.Errorf("%s: %v", file, err)
					}
					c.Asserts = append(c.Asserts, CallAssert{Callee: m[1], Ordinal: ord, Clause: cl})
				default:
					return fmt.Errorf("%s:%d: unknown clause %q", file, l.line, w)
				}
			}
			if c.Extern {
				prog.Externs[c.Key] = c
			} else {
				fn, err := prog.findFunc(pkg, c.Key)
				if err != nil {
					return fmt.Errorf("%s:%d: %v", file, it.line, err)
				}
				c.Fn = fn
				if c.Logs != "" {
					prog.classSigs[c.Logs] = fn.Signature
					if rv := fn.Signature.Recv(); rv != nil {
						prog.classRecv[c.Logs] = rv.Type()
					}
				}
				if _, dup := prog.Contracts[fn]; dup {
					return fmt.Errorf("%s:%d: duplicate contract for %s", file, it.line, c.Key)
				}
				prog.Contracts[fn] = c
				prog.Order = append(prog.Order, c)
			}
		case "ghostvar":
			f := strings.Fields(it.rest)
			if len(f) != 2 {
				return fmt.Errorf("%s:%d: ghostvar NAME TYPE", file, it.line)
			}
			prog.Ghosts[f[0]] = &GhostDecl{Name: f[0], Type: f[1], Pkg: pkg}
		case "const":
			// const NAME = expr   (spec-level named constant, evaluated as pure with no params)
			m := regexp.MustCompile(`^(\w+)\s*=\s*(.*)$`).FindStringSubmatch(it.rest)
			if m == nil {
				return fmt.Errorf("%s:%d: bad const", file, it.line)
			}
			body, err := ParseSpec(m[2])
			if err != nil {
				return fmt.Errorf("%s:%d: %v", file, it.line, err)
			}
			pf := &PureFunc{Name: m[1], Pkg: pkg, Body: body, Text: m[2]}
			prog.Pures[pureKey(pkg, pf.Name)] = pf
		}
	}
	return nil
}

// findFunc resolves "Type.method", "func", "func$1", "Type.method$2".
func (prog *Program) findFunc(pkg *types.Package, key string) (*ssa.Function, error) {
	spkg := prog.SSA.Package(pkg)
	if spkg == nil {
		return nil, fmt.Errorf("no SSA package for %s", pkg.Path())
	}
	base := key
	var anon []int
	for {
		k := strings.LastIndex(base, "$")
		if k < 0 {
			break
		}
		n, err := strconv.Atoi(base[k+1:])
		if err != nil {
			break
		}
		anon = append([]int{n}, anon...)
		base = base[:k]
	}
	var fn *ssa.Function
	if k := strings.Index(base, "."); k >= 0 {
		tn, mn := base[:k], base[k+1:]
		obj := pkg.Scope().Lookup(tn)
		if obj == nil {
			return nil, fmt.Errorf("no type %s in %s", tn, pkg.Path())
		}
		for _, t := range []types.Type{obj.Type(), types.NewPointer(obj.Type())} {
			ms := prog.SSA.MethodSets.MethodSet(t)
			for i := 0; i < ms.Len(); i++ {
				if ms.At(i).Obj().Name() == mn {
					f := prog.SSA.MethodValue(ms.At(i))
					if f != nil && f.Synthetic == "" {
						fn = f
					} else if f != nil && fn == nil {
						// wrapper for a value-receiver method: find the declared one
						if decl := prog.SSA.FuncValue(ms.At(i).Obj().(*types.Func)); decl != nil {
							fn = decl
						}
					}
				}
			}
			if fn != nil {
				break
			}
		}
		if fn == nil {
			return nil, fmt.Errorf("no method %s.%s", tn, mn)
		}
	} else {
		fn = spkg.Func(base)
		if fn == nil {
			return nil, fmt.Errorf("no function %s in %s", base, pkg.Path())
		}
	}
	for _, n := range anon {
		if n < 1 || n > len(fn.AnonFuncs) {
			return nil, fmt.Errorf("%s has no anonymous function $%d", fn.Name(), n)
		}
		fn = fn.AnonFuncs[n-1]
	}
	return fn, nil
}
