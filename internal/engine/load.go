package engine

import (
	"fmt"
	"go/ast"
	"go/token"
	"go/types"
	"os"
	"path/filepath"
	"sort"
	"strings"

	"golang.org/x/tools/go/packages"
	"golang.org/x/tools/go/ssa"
	"golang.org/x/tools/go/ssa/ssautil"
)

type Program struct {
	Fset      *token.FileSet
	Pkgs      []*packages.Package
	All       map[string]*packages.Package // by path, all transitively loaded
	SSA       *ssa.Program
	Contracts map[*ssa.Function]*Contract
	Order     []*Contract
	Externs   map[string]*Contract
	Pures     map[string]*PureFunc
	Lemmas    []*Lemma
	RepoDir   string
	typeTags  map[string]int
	tagNames  []string
	tagTypes  map[types.Type]int
	classSigs map[string]*types.Signature
	classRecv map[string]types.Type
	Ghosts    map[string]*GhostDecl
	imports   map[*types.Package]map[string]*types.Package
	sentTypes map[string]bool
	methodSigs map[string]*types.Signature
}

// Load loads the packages matching patterns from module directory dir with the
// build tag `verif`, builds SSA and parses the contract files.
func Load(dir string, patterns []string, externDir string) (*Program, error) {
	fset := token.NewFileSet()
	cfg := &packages.Config{
		Mode:       packages.LoadAllSyntax,
		Dir:        dir,
		Fset:       fset,
		BuildFlags: []string{"-tags=verif"},
		Env:        append(os.Environ(), "GOFLAGS=-mod=mod", "GOPROXY=off", "GOSUMDB=off", "GOTOOLCHAIN=local"),
	}
	pkgs, err := packages.Load(cfg, patterns...)
	if err != nil {
		return nil, err
	}
	var errs []string
	packages.Visit(pkgs, nil, func(p *packages.Package) {
		for _, e := range p.Errors {
			errs = append(errs, e.Error())
		}
	})
	if len(errs) > 0 {
		return nil, fmt.Errorf("load errors:\n%s", strings.Join(errs, "\n"))
	}
	sprog, _ := ssautil.AllPackages(pkgs, ssa.InstantiateGenerics|ssa.GlobalDebug)
	sprog.Build()
	prog := &Program{Fset: fset, Pkgs: pkgs, SSA: sprog, Contracts: map[*ssa.Function]*Contract{},
		Externs: map[string]*Contract{}, Pures: map[string]*PureFunc{}, RepoDir: dir,
		typeTags: map[string]int{}, tagTypes: map[types.Type]int{}, classSigs: map[string]*types.Signature{}, classRecv: map[string]types.Type{}, Ghosts: map[string]*GhostDecl{}, All: map[string]*packages.Package{}, imports: map[*types.Package]map[string]*types.Package{}}
	packages.Visit(pkgs, nil, func(p *packages.Package) { prog.All[p.PkgPath] = p })
	// extern contracts first (so that package contracts can refer to extern pures)
	if externDir != "" {
		files, _ := filepath.Glob(filepath.Join(externDir, "*.spec"))
		sort.Strings(files)
		for _, f := range files {
			if err := prog.LoadContracts(f, nil, true); err != nil {
				return nil, err
			}
		}
	}
	for _, p := range pkgs {
		if len(p.GoFiles) == 0 {
			continue
		}
		pdir := filepath.Dir(p.GoFiles[0])
		files, _ := filepath.Glob(filepath.Join(pdir, "*_verif.go"))
		sort.Strings(files)
		for _, f := range files {
			if err := prog.LoadContracts(f, p.Types, false); err != nil {
				return nil, err
			}
		}
	}
	return prog, nil
}

// importsOf returns local import name -> package for all files of pkg.
func (prog *Program) importsOf(pkg *types.Package) map[string]*types.Package {
	if m, ok := prog.imports[pkg]; ok {
		return m
	}
	m := map[string]*types.Package{}
	if pp := prog.All[pkg.Path()]; pp != nil {
		for _, f := range pp.Syntax {
			for _, imp := range f.Imports {
				path := strings.Trim(imp.Path.Value, "\"")
				ip := pp.Imports[path]
				if ip == nil || ip.Types == nil {
					continue
				}
				name := ip.Types.Name()
				if imp.Name != nil {
					name = imp.Name.Name
				}
				m[name] = ip.Types
			}
		}
	}
	// also make every loaded package reachable by its own name (for extern specs)
	for _, p := range prog.All {
		if p.Types != nil {
			if _, ok := m[p.Types.Name()]; !ok {
				m[p.Types.Name()] = p.Types
			}
		}
	}
	prog.imports[pkg] = m
	return m
}

// resolveType parses a Go type expression string in the context of pkg.
func (prog *Program) resolveType(s string, pkg *types.Package) (types.Type, error) {
	s = strings.TrimSpace(s)
	switch {
	case strings.HasPrefix(s, "*"):
		t, err := prog.resolveType(s[1:], pkg)
		if err != nil {
			return nil, err
		}
		return types.NewPointer(t), nil
	case strings.HasPrefix(s, "[]"):
		t, err := prog.resolveType(s[2:], pkg)
		if err != nil {
			return nil, err
		}
		return types.NewSlice(t), nil
	case strings.HasPrefix(s, "map["):
		depth := 0
		for i := 3; i < len(s); i++ {
			if s[i] == '[' {
				depth++
			} else if s[i] == ']' {
				depth--
				if depth == 0 {
					k, err := prog.resolveType(s[4:i], pkg)
					if err != nil {
						return nil, err
					}
					v, err := prog.resolveType(s[i+1:], pkg)
					if err != nil {
						return nil, err
					}
					return types.NewMap(k, v), nil
				}
			}
		}
		return nil, fmt.Errorf("bad map type %q", s)
	case s == "error":
		return types.Universe.Lookup("error").Type(), nil
	case s == "interface{}" || s == "any":
		return types.NewInterfaceType(nil, nil), nil
	case s == "struct{}":
		return types.NewStruct(nil, nil), nil
	}
	if k := strings.Index(s, "."); k >= 0 {
		pn, tn := s[:k], s[k+1:]
		var ip *types.Package
		if pkg != nil {
			ip = prog.importsOf(pkg)[pn]
		}
		if ip == nil {
			// prefer packages of the repository, then any loaded package with that name that has the type
			for pass := 0; pass < 2 && ip == nil; pass++ {
				for _, p := range prog.All {
					if p.Types == nil || p.Types.Name() != pn {
						continue
					}
					if pass == 0 && !strings.HasPrefix(p.PkgPath, "github.com/containerd/nri") {
						continue
					}
					if p.Types.Scope().Lookup(tn) != nil {
						ip = p.Types
						break
					}
				}
			}
		}
		if ip == nil {
			return nil, fmt.Errorf("unknown package %q in type %q", pn, s)
		}
		obj := ip.Scope().Lookup(tn)
		if obj == nil {
			return nil, fmt.Errorf("unknown type %s", s)
		}
		return obj.Type(), nil
	}
	if obj := types.Universe.Lookup(s); obj != nil {
		if tn, ok := obj.(*types.TypeName); ok {
			return tn.Type(), nil
		}
	}
	if pkg != nil {
		if obj := pkg.Scope().Lookup(s); obj != nil {
			if tn, ok := obj.(*types.TypeName); ok {
				return tn.Type(), nil
			}
		}
	}
	return nil, fmt.Errorf("unknown type %q", s)
}

func (prog *Program) typeTag(t types.Type) int {
	t = canon(t)
	k := types.TypeString(t, nil)
	if n, ok := prog.typeTags[k]; ok {
		return n
	}
	n := len(prog.typeTags) + 1
	prog.typeTags[k] = n
	prog.tagNames = append(prog.tagNames, k)
	prog.tagTypes[t] = n
	return n
}

func (prog *Program) pos(p token.Pos) string {
	if !p.IsValid() {
		return "?"
	}
	ps := prog.Fset.Position(p)
	rel, err := filepath.Rel(prog.RepoDir, ps.Filename)
	if err != nil || strings.HasPrefix(rel, "..") {
		rel = ps.Filename
	}
	return fmt.Sprintf("%s:%d", rel, ps.Line)
}

// funcKey gives the short contract-style key of a function.
func funcKey(fn *ssa.Function) string {
	name := fn.Name()
	if fn.Parent() != nil {
		// anonymous: parentKey$N
		p := fn.Parent()
		for i, a := range p.AnonFuncs {
			if a == fn {
				return fmt.Sprintf("%s$%d", funcKey(p), i+1)
			}
		}
	}
	if recv := fn.Signature.Recv(); recv != nil {
		t := recv.Type()
		if p, ok := t.(*types.Pointer); ok {
			t = p.Elem()
		}
		if n, ok := t.(*types.Named); ok {
			return n.Obj().Name() + "." + name
		}
	}
	return name
}

func fullName(fn *ssa.Function) string {
	return fn.String()
}

var _ = ast.NewIdent

type GhostDecl struct {
	Name string
	Type string
	Pkg  *types.Package
}
