package engine

import (
	"fmt"
	"go/types"
	"strings"

	"golang.org/x/tools/go/ssa"
)

func (c *Contract) hasFlag(name string) bool {
	if c == nil {
		return false
	}
	for _, f := range c.Flags {
		if f == name {
			return true
		}
	}
	return false
}

// closureID registers a closure value and returns its function-value term.
func (x *Exec) closureID(fn *ssa.Function, bindings []Val) string {
	id := x.vc.Const("closure."+fn.Name(), "Int")
	x.vc.FactFor(id, app(">", id, "0"))
	if x.closures == nil {
		x.closures = map[string]*Closure{}
	}
	x.closures[id] = &Closure{Fn: fn, Bindings: bindings}
	// bound-method closures: identity is determined by (method, receiver)
	if strings.HasSuffix(fn.Name(), "$bound") && len(bindings) == 1 {
		recv := bindings[0]
		var args []string
		var sorts []string
		eachLeaf(recv, "", func(p string, lv Val) { args = append(args, lv.S); sorts = append(sorts, x.vc.sortOf(lv.T)) })
		bf := x.vc.Fun("bound:"+fn.String(), sorts, "Int")
		x.vc.FactFor(id, Eq(id, app(bf, args...)))
	}
	return id
}

// globalFuncAlias resolves package-level function variables that are only
// assigned once, in the package initialiser, to a static function.
func (x *Exec) globalFuncAlias(g *ssa.Global) (Val, bool) {
	if _, ok := under(g.Type().(*types.Pointer).Elem()).(*types.Signature); !ok {
		return Val{}, false
	}
	var target *ssa.Function
	count := 0
	for _, m := range g.Pkg.Members {
		fn, ok := m.(*ssa.Function)
		if !ok {
			continue
		}
		var scan func(fn *ssa.Function)
		scan = func(fn *ssa.Function) {
			for _, b := range fn.Blocks {
				for _, in := range b.Instrs {
					if st, ok := in.(*ssa.Store); ok && st.Addr == g {
						count++
						if t, ok := st.Val.(*ssa.Function); ok && fn.Name() == "init" {
							target = t
						}
					}
				}
			}
			for _, a := range fn.AnonFuncs {
				scan(a)
			}
		}
		scan(fn)
	}
	if count == 1 && target != nil {
		return Val{T: target.Type(), S: x.funcID(target)}, true
	}
	return Val{}, false
}

// ---- calls ----

func (f *frame) call(n *ssa.Call) {
	res := f.doCall(&n.Call, n, f.pos(n))
	if n.Type() != nil {
		res.T = n.Type()
		if tup, ok := n.Type().(*types.Tuple); ok && tup.Len() == 0 {
			return
		}
		f.regs[n] = f.x.nameVal(n.Name(), res)
	}
}

func (f *frame) doCall(c *ssa.CallCommon, site ssa.Instruction, pos string) Val {
	x := f.x
	var args []Val
	for _, a := range c.Args {
		args = append(args, f.val(a))
	}
	if c.IsInvoke() {
		recv := f.val(c.Value)
		return f.invoke(c, recv, args, pos)
	}
	switch callee := c.Value.(type) {
	case *ssa.Builtin:
		return f.builtin(callee, c, args, site, pos)
	case *ssa.Function:
		return f.callFunc(callee, args, nil, c, pos)
	case *ssa.MakeClosure:
		fn := callee.Fn.(*ssa.Function)
		var bs []Val
		for _, b := range callee.Bindings {
			bs = append(bs, f.val(b))
		}
		return f.callFunc(fn, args, bs, c, pos)
	}
	// dynamic function value
	fv := f.val(c.Value)
	if cl, ok := x.closures[fv.S]; ok {
		if cl == nil {
			return x.vc.zeroVal(c.Signature().Results()) // modelled no-op (e.g. context cancel function)
		}
		return f.callFunc(cl.Fn, args, cl.Bindings, c, pos)
	}
	f.safety("nilfunc", "call of nil function value "+c.Value.Name(), Not(Eq(fv.S, "0")), pos)
	cls := "func:" + f.funcValClass(c.Value)
	return f.unknownCall(cls, append([]Val{fv}, args...), c.Signature().Results(), pos)
}

// funcValClass names the call class of a dynamic function value by where it was loaded from.
func (f *frame) funcValClass(v ssa.Value) string {
	switch n := v.(type) {
	case *ssa.UnOp:
		if fa, ok := n.X.(*ssa.FieldAddr); ok {
			st := under(fa.X.Type()).(*types.Pointer).Elem()
			return typeKey(st) + "." + fieldName(fa.X.Type(), fa.Field)
		}
		if g, ok := n.X.(*ssa.Global); ok {
			return g.Pkg.Pkg.Name() + "." + g.Name()
		}
	case *ssa.Parameter:
		return "param." + n.Name()
	case *ssa.Field:
		return typeKey(n.X.Type()) + "." + fieldName(n.X.Type(), n.Field)
	case *ssa.Extract:
		return "value"
	case *ssa.Phi:
		return "value"
	}
	return "value"
}

func (f *frame) callFunc(fn *ssa.Function, args []Val, bindings []Val, c *ssa.CallCommon, pos string) Val {
	x := f.x
	name := fn.String()
	if fn.Synthetic != "" && strings.HasSuffix(fn.Name(), "$bound") {
		// bound method closure: bindings[0] is the receiver
		return f.callBound(fn, args, bindings, c, pos)
	}
	if m, ok := externModels[name]; ok {
		return m(f, args, c, pos)
	}
	if strings.HasPrefix(name, "(*github.com/sirupsen/logrus.") || strings.HasPrefix(name, "github.com/sirupsen/logrus.") ||
		strings.HasPrefix(name, "github.com/containerd/log.") || strings.HasPrefix(name, "(*github.com/containerd/nri/pkg/log.") ||
		strings.HasPrefix(name, "github.com/containerd/nri/pkg/log.") {
		// logging: arbitrary well-formed result (e.g. a derived *Entry), nothing else
		x.vc.Assume["logging calls have no effect on verified state"] = true
		if fn.Signature.Results().Len() == 0 {
			return x.vc.zeroVal(fn.Signature.Results())
		}
		res := x.fixPtrs(x.vc.freshVal(fn.Signature.Results(), "log."+fn.Name()))
		na := x.vc.Const("alloc.call", "Int")
		f.assume(app(">=", na, x.heap.alloc(f.st)))
		f.st.heap[allocKey] = na
		f.assume(x.heap.valAssume(f.st, res))
		if fn.Signature.Results().Len() == 1 {
			return res.Fs[0]
		}
		return res
	}
	if ct := x.prog.Contracts[fn]; ct != nil && !ct.Inline && !(len(x.qsyms) > 0 && len(fn.Blocks) > 0 && inlinable(fn)) {
		// (under a quantifier the callee's body is evaluated instead: a contract call would
		// introduce one result constant for all instances)
		return f.callContract(ct, fn.Signature, args, pos, funcKey(fn), bindings...)
	}
	if ct := x.prog.Externs[name]; ct != nil {
		return f.callContract(ct, fn.Signature, args, pos, name)
	}
	if len(fn.Blocks) > 0 && (f.depth < x.opts.InlineDepth || len(x.qsyms) > 0) && inlinable(fn) && (x.prog.isRepoFunc(fn) || x.prog.inlineLib(fn)) {
		r := x.run(fn, args, bindings, f.st, f.cur, f.depth+1, false)
		if r.noRet {
			f.dead = true
			return x.vc.zeroVal(fn.Signature.Results())
		}
		f.st = r.st
		f.cur = r.cond
		return r.val
	}
	if len(fn.Blocks) > 0 && x.prog.isRepoFunc(fn) {
		panic(unsupported(fmt.Sprintf("call to %s at %s: needs a contract (has loops or is too deep to inline)", name, pos)))
	}
	return f.unknownCall(name, args, fn.Signature.Results(), pos)
}

func (prog *Program) isRepoPkg(p *ssa.Package) bool {
	return p != nil && strings.HasPrefix(p.Pkg.Path(), "github.com/containerd/nri")
}

func (prog *Program) isRepoFunc(fn *ssa.Function) bool {
	if fn.Pkg == nil {
		return false
	}
	return strings.HasPrefix(fn.Pkg.Pkg.Path(), "github.com/containerd/nri")
}

// inlineLib: library functions whose bodies are executed symbolically (small generic helpers);
// every other function outside the repository is an external call (arbitrary result, ghost-logged).
func (prog *Program) inlineLib(fn *ssa.Function) bool {
	if fn.Pkg == nil {
		// instantiated generics have no package: decide by the origin
		if o := fn.Origin(); o != nil && o.Pkg != nil {
			switch o.Pkg.Pkg.Path() {
			case "slices", "maps", "cmp":
				return true
			}
		}
		return strings.HasSuffix(fn.Name(), "$bound") || strings.HasSuffix(fn.Name(), "$thunk")
	}
	switch fn.Pkg.Pkg.Path() {
	case "slices", "maps", "cmp":
		return true
	case "github.com/opencontainers/runtime-tools/generate":
		// the OCI generator's setters are tiny loop-free functions over the spec; their
		// real bodies are executed (those with loops are external calls)
		return inlinable(fn)
	}
	return false
}

func inlinable(fn *ssa.Function) bool {
	for _, b := range fn.Blocks {
		for _, s := range b.Succs {
			if s.Dominates(b) {
				return false
			}
		}
	}
	return true
}

func (f *frame) callBound(fn *ssa.Function, args []Val, bindings []Val, c *ssa.CallCommon, pos string) Val {
	// the wrapper's body calls the method on the bound receiver; run it (it is loop-free)
	x := f.x
	if len(fn.Blocks) > 0 {
		r := x.run(fn, args, bindings, f.st, f.cur, f.depth+1, false)
		if r.noRet {
			f.dead = true
			return x.vc.zeroVal(fn.Signature.Results())
		}
		f.st, f.cur = r.st, r.cond
		return r.val
	}
	return f.unknownCall(fn.String(), args, fn.Signature.Results(), pos)
}

// invoke: interface method call.
func (f *frame) invoke(c *ssa.CallCommon, recv Val, args []Val, pos string) Val {
	x := f.x
	m := c.Method
	iface := c.Value.Type()
	if k := typeKey(iface) + "." + m.Name(); strings.HasPrefix(k, "log.Logger.") || strings.HasPrefix(k, "logrus.") {
		x.vc.Assume["logging calls have no effect on verified state"] = true
		return x.vc.zeroVal(m.Type().(*types.Signature).Results())
	}
	f.safety("nil", "method call on nil interface "+c.Value.Name()+"."+m.Name(), Not(Eq(recv.Fs[0].S, "0")), pos)
	if m.Name() == "Error" && typeKey(iface) == "error" {
		fn := x.vc.Fun("error.Error", []string{"Int", "Int"}, "String")
		return Val{T: stringT, S: app(fn, recv.Fs[0].S, recv.Fs[1].S)}
	}
	cls := typeKey(iface) + "." + m.Name()
	if strings.HasPrefix(cls, "log.Logger.") || strings.HasPrefix(cls, "logrus.") {
		x.vc.Assume["logging calls have no effect on verified state"] = true
		return x.vc.zeroVal(m.Type().(*types.Signature).Results())
	}
	if ct := x.prog.Externs[cls]; ct != nil {
		return f.callContract(ct, m.Type().(*types.Signature), append([]Val{recv}, args...), pos, cls)
	}
	return f.unknownCall(cls, append([]Val{recv}, args...), m.Type().(*types.Signature).Results(), pos)
}

// callSiteAsserts checks the caller's `at call X#n assert e` clauses (the call's
// arguments are available as arg0, arg1, ...).
func (f *frame) callSiteAsserts(key string, ord int, args []Val, pos string) {
	f.callSiteAssertsIf("true", key, ord, args, pos)
}

// callSiteAssertsIf: the same for an operation that happens only when cond holds (a send
// case of a select statement; key "chan.send", arg0 the channel, arg1 the value).
func (f *frame) callSiteAssertsIf(cond string, key string, ord int, args []Val, pos string) {
	x := f.x
	if !f.top || x.top == nil {
		return
	}
	for i := range x.top.Asserts {
		ca := &x.top.Asserts[i]
		if ca.Callee == key && (ca.Ordinal == 0 || ca.Ordinal == ord) {
			cenv := x.baseEnv(f.st)
			for j, a := range args {
				cenv.vars[fmt.Sprintf("arg%d", j)] = a
			}
			cenv.lookup = func(name string) (Val, bool) { return f.lookupName(name, f.curBlock, f.st) }
			t := x.evalClause(cenv, &ca.Clause)
			if cond != "true" {
				t = Implies(cond, t)
			}
			f.assert(fmt.Sprintf("callsite.%s#%d.%s", key, ord, clauseName(&ca.Clause, i)), "call-site assertion: "+ca.Clause.Text, t, &ca.Clause, pos)
		}
	}
}

// unknownCall: arbitrary results, ghost call-log entry, no effect on the heap.
func (f *frame) unknownCall(cls string, args []Val, results *types.Tuple, pos string) Val {
	x := f.x
	if f.top {
		x.callOrd[cls]++
		f.callSiteAsserts(cls, x.callOrd[cls], args, pos)
	}
	x.abstracted = true
	x.vc.Assume["call class "+cls+": result arbitrary, no effect on NRI state (ghost-logged)"] = true
	res := x.vc.freshVal(results, "ret."+cls)
	res = x.fixPtrs(res)
	x.ghostLogCall(f.st, cls, args, res)
	// results are well-formed values; anything they reference may be freshly allocated
	na := x.vc.Const("alloc.call", "Int")
	f.assume(app(">=", na, x.heap.alloc(f.st)))
	f.st.heap[allocKey] = na
	f.assume(x.heap.valAssume(f.st, res))
	if results.Len() == 1 {
		return res.Fs[0]
	}
	return res
}

func (x *Exec) fixPtrs(v Val) Val {
	if len(v.Fs) > 0 {
		for i := range v.Fs {
			v.Fs[i] = x.fixPtrs(v.Fs[i])
		}
		return v
	}
	return x.fixPtr(v)
}

// ---- contract calls ----

func (f *frame) callContract(ct *Contract, sig *types.Signature, args []Val, pos string, key string, free ...Val) Val {
	x := f.x
	ord := 0
	if f.top {
		x.callOrd[key]++
		ord = x.callOrd[key]
		if x.callBlock == nil {
			x.callBlock = map[string]*ssa.BasicBlock{}
		}
		if f.curBlock != nil {
			x.callBlock[fmt.Sprintf("%s#%d", key, ord)] = f.curBlock
		}
	}
	env := x.contractEnv(ct, sig, args, f.st, f.st)
	x.bindFree(env, ct, free, f.st)
	f.callSiteAsserts(key, ord, args, pos)
	for i := range ct.Requires {
		c := ct.Requires[i]
		name := fmt.Sprintf("pre.%s#%d.%s", key, ord, clauseName(&c, i))
		if !f.top {
			name = fmt.Sprintf("pre.%s.%s", key, clauseName(&c, i))
		}
		// one obligation per conjunct, so that a failure names what is missing
		parts := SplitConj(c.Expr)
		for j, pe := range parts {
			pc := c
			pc.Expr = pe
			pn, txt := name, c.Text
			if len(parts) > 1 {
				pn = fmt.Sprintf("%s.%d", name, j+1)
				txt = SpecString(pe)
			}
			t := x.evalClause(env, &pc)
			f.assert(pn, fmt.Sprintf("precondition of %s: %s", key, txt), t, nil, pos)
		}
	}
	pre := f.st.clone()
	// havoc the modifies set
	x.havocModifies(f, ct, env, pre)
	// result
	res := x.vc.freshVal(sig.Results(), "res."+key)
	res = x.fixPtrs(res)
	f.assume(x.heap.valAssume(f.st, res))
	if ct.Logs != "" {
		// calls of this function are recorded in a ghost call log visible to the callers
		x.ghostLogCall(f.st, ct.Logs, args, res)
	} else if ct.Extern {
		// external calls are always ghost-logged under their own name
		x.ghostLogCall(f.st, key, args, res)
		x.vc.Assume["assumed contract of external call "+key] = true
	}
	post := x.contractEnv(ct, sig, args, f.st, pre)
	x.bindFree(post, ct, free, f.st)
	x.bindResult(post, sig, res)
	for i, r := range ct.Results {
		if r.Name != "" && i < len(res.Fs) {
			post.vars[r.Name] = res.Fs[i]
		}
	}
	for i := range ct.Ensures {
		c := ct.Ensures[i]
		if c.KF != "" {
			continue // a clause known to fail is never assumed at call sites
		}
		f.assume(x.evalClause(post, &c))
	}
	if ct.Trusted {
		x.vc.Assume["trusted contract (assumed, not verified): "+ct.Key] = true
	}
	if sig.Results().Len() == 1 {
		return res.Fs[0]
	}
	return res
}

func (x *Exec) bindResult(env *Env, sig *types.Signature, res Val) {
	if sig.Results().Len() == 1 {
		env.vars["result"] = res.Fs[0]
	} else {
		env.vars["result"] = res
	}
	for i := 0; i < sig.Results().Len(); i++ {
		if n := sig.Results().At(i).Name(); n != "" && n != "_" {
			if _, clash := env.vars[n]; !clash {
				env.vars[n] = res.Fs[i]
			}
		}
	}
}

// bindFree binds the captured variables of a closure under contract (by name) to their
// current values; the bindings are pointers to the captured variables.
func (x *Exec) bindFree(env *Env, ct *Contract, free []Val, st *State) {
	if ct.Fn == nil {
		return
	}
	for j, fv := range ct.Fn.FreeVars {
		if j >= len(free) {
			break
		}
		if p, ok := under(fv.Type()).(*types.Pointer); ok {
			env.vars[fv.Name()] = x.heap.load(st, x.fixPtr(free[j]), p.Elem())
		}
	}
}

// contractEnv binds parameter names of the contract's function to args.
func (x *Exec) contractEnv(ct *Contract, sig *types.Signature, args []Val, cur, old *State) *Env {
	env := &Env{x: x, vars: map[string]Val{}, cur: cur, old: old, pkg: ct.Pkg}
	i := 0
	if ct.Fn != nil {
		old, hasOld := NameBaseline[unitName(ct)]
		if hasOld && len(old.Params) != len(ct.Fn.Params)+len(ct.Fn.FreeVars) {
			hasOld = false
		}
		for _, p := range ct.Fn.Params {
			if i < len(args) {
				env.vars[p.Name()] = args[i]
				if hasOld {
					// the name the contract was written against (parameter renamed since)
					if _, clash := env.vars[old.Params[i]]; !clash {
						env.vars[old.Params[i]] = args[i]
					}
				}
			}
			i++
		}
		for j, fv := range ct.Fn.FreeVars {
			_ = j
			_ = fv
		}
	} else {
		for _, p := range ct.Params {
			if i < len(args) {
				env.vars[p.Name] = args[i]
			}
			i++
		}
	}
	return env
}

// havocModifies applies the callee's modifies clause to the caller state.
func (x *Exec) havocModifies(f *frame, ct *Contract, env *Env, pre *State) {
	h := x.heap
	na := x.vc.Const("alloc.call", "Int")
	f.assume(app(">=", na, h.alloc(f.st)))
	if ct.ModStatic && ct.Fn != nil {
		x.vc.Assume["static write set used as frame of "+ct.Key+" (whole heap variables havocked at call sites)"] = true
		for _, k := range sortedKeys(x.staticWrites(ct.Fn)) {
			if k == allocKey {
				continue
			}
			f.st.heap[k] = x.vc.Const("hv."+k, h.sorts[k])
			f.assume(h.nilFacts(k, f.st.heap[k]))
		}
	}
	for i := range ct.Modifies {
		mts := x.resolveModifies(env.inState(pre), &ct.Modifies[i])
		for _, mt := range mts {
			if mt.prefix != "" {
				for _, k := range append([]string{}, h.order...) {
					if strings.HasPrefix(k, mt.prefix) {
						f.st.heap[k] = x.vc.Const("hv."+k, h.sorts[k])
					}
				}
			}
			for j, k := range mt.keys {
				sort := mt.sorts[j]
				cur := h.get(f.st, k, sort)
				if mt.target == "" || !strings.HasPrefix(sort, "(Array Int ") {
					f.st.heap[k] = x.vc.Const("hv."+k, sort)
					f.assume(h.nilFacts(k, f.st.heap[k]))
					continue
				}
				elem := sort[len("(Array Int ") : len(sort)-1]
				if mt.subkey != "" && !strings.HasPrefix(k, "ML:") {
					// only one entry of the map may change
					parts := strings.SplitN(strings.TrimSuffix(strings.TrimPrefix(elem, "(Array "), ")"), " ", 2)
					vs := parts[1]
					fresh := x.vc.Const("hv."+k, vs)
					h.set(f.st, k, sort, Ite(Eq(mt.target, "0"), cur, Store(cur, mt.target, Store(Select(cur, mt.target), mt.subkey, fresh))))
					continue
				}
				fresh := x.vc.Const("hv."+k, elem)
				h.set(f.st, k, sort, Ite(Eq(mt.target, "0"), cur, Store(cur, mt.target, fresh)))
			}
		}
	}
	f.st.heap[allocKey] = na
}

// resolveModifies turns a modifies location expression into heap keys + target.
func (x *Exec) resolveModifies(env *Env, c *Clause) (out []modTarget) {
	defer func() {
		if r := recover(); r != nil {
			if se, ok := r.(specErr); ok {
				panic(specErr{fmt.Sprintf("in modifies %q: %s", c.Text, se.msg)})
			}
			panic(r)
		}
	}()
	h := x.heap
	vc := x.vc
	switch n := c.Expr.(type) {
	case *SCall:
		switch n.Fun {
		case "map":
			m := env.Eval(n.Args[0])
			mi := h.mapInfo(m.T)
			mt := modTarget{target: m.S, text: c.Text}
			mt.keys = append(mt.keys, mi.domKey, mi.lenKey)
			mt.sorts = append(mt.sorts, mi.domSort, h.arrSort("Int"))
			for _, l := range leaves(mi.m.Elem()) {
				mt.keys = append(mt.keys, mi.valKey(l.Path))
				mt.sorts = append(mt.sorts, h.arrSort("(Array "+mi.ksort+" "+vc.sortOf(l.T)+")"))
			}
			return []modTarget{mt}
		case "mapkey":
			m := env.Eval(n.Args[0])
			mi := h.mapInfo(m.T)
			kv := env.coerce(env.Eval(n.Args[1]), mi.m.Key())
			mt := modTarget{target: m.S, subkey: kv.S, text: c.Text}
			mt.keys = append(mt.keys, mi.domKey, mi.lenKey)
			mt.sorts = append(mt.sorts, mi.domSort, h.arrSort("Int"))
			for _, l := range leaves(mi.m.Elem()) {
				mt.keys = append(mt.keys, mi.valKey(l.Path))
				mt.sorts = append(mt.sorts, h.arrSort("(Array "+mi.ksort+" "+vc.sortOf(l.T)+")"))
			}
			return []modTarget{mt}
		case "elems":
			s := env.Eval(n.Args[0])
			et := sliceElem(s.T)
			mt := modTarget{target: s.Fs[0].S, text: c.Text}
			for _, l := range leaves(et) {
				mt.keys = append(mt.keys, elemKey(et, l.Path))
				mt.sorts = append(mt.sorts, h.arrSort(h.arrSort(vc.sortOf(l.T))))
			}
			return []modTarget{mt}
		case "calls":
			cls := env.strArg(n, 0)
			mt := modTarget{text: c.Text, prefix: "X:calls:" + cls + ":"}
			for _, k := range x.ghostCallKeys(cls) {
				mt.keys = append(mt.keys, k)
				mt.sorts = append(mt.sorts, h.sorts[k])
			}
			x.ghostSeqKey(&mt)
			return []modTarget{mt}
		case "lock":
			loc := env.lockLoc(n.Args[0])
			mt := modTarget{target: loc.Base, text: c.Text}
			for _, kind := range []string{"held", "rheld", "epoch", "done"} {
				k, s := lockKey(kind, loc.Key)
				h.declare(k, s)
				mt.keys = append(mt.keys, k)
				mt.sorts = append(mt.sorts, s)
			}
			return []modTarget{mt}
		case "chanstate":
			ch := env.Eval(n.Args[0])
			mt := modTarget{target: ch.S, text: c.Text}
			for _, kv := range [][2]string{{chanKey("closed", ch.T), "(Array Int Bool)"}, {chanKey("len", ch.T), "(Array Int Int)"}, {chanKey("cap", ch.T), "(Array Int Int)"}} {
				h.declare(kv[0], kv[1])
				mt.keys = append(mt.keys, kv[0])
				mt.sorts = append(mt.sorts, kv[1])
			}
			return []modTarget{mt}
		case "allchans":
			// allchans("chan T"): the state of every channel of that type
			ct := x.resolveType(strings.TrimPrefix(env.strArg(n, 0), "chan "), env.pkg)
			cht := types.NewChan(types.SendRecv, ct)
			mt := modTarget{text: c.Text}
			for _, kv := range [][2]string{{chanKey("closed", cht), "(Array Int Bool)"}, {chanKey("len", cht), "(Array Int Int)"}, {chanKey("cap", cht), "(Array Int Int)"}} {
				h.declare(kv[0], kv[1])
				mt.keys = append(mt.keys, kv[0])
				mt.sorts = append(mt.sorts, kv[1])
			}
			return []modTarget{mt}
		case "alllocks":
			// alllocks("T:path"): the lock embedded at that path in every object of type T
			key := env.strArg(n, 0)
			mt := modTarget{text: c.Text}
			for _, kind := range []string{"held", "rheld", "epoch", "done"} {
				k, s := lockKey(kind, key)
				h.declare(k, s)
				mt.keys = append(mt.keys, k)
				mt.sorts = append(mt.sorts, s)
			}
			return []modTarget{mt}
		case "ghost":
			name := env.strArg(n, 0)
			k := "X:g:" + name
			s, ok := h.sorts[k]
			if !ok {
				sfail("unknown ghost variable %s", name)
			}
			return []modTarget{{keys: []string{k}, sorts: []string{s}, text: c.Text}}
		case "object":
			// object(p): all fields of *p
			p := env.Eval(n.Args[0])
			pt, ok := under(p.T).(*types.Pointer)
			if !ok {
				sfail("object(): not a pointer")
			}
			mt := modTarget{target: p.S, text: c.Text}
			for _, l := range leaves(pt.Elem()) {
				mt.keys = append(mt.keys, fieldKey(pt.Elem(), l.Path))
				mt.sorts = append(mt.sorts, h.arrSort(vc.sortOf(l.T)))
			}
			return []modTarget{mt}
		case "allfields":
			// allfields("T.f"): field f of every object of type T (whole variable)
			lit := env.strArg(n, 0)
			k := strings.LastIndex(lit, ".")
			t := x.resolveType(lit[:k], env.pkg)
			ft := subType(t, lit[k+1:])
			mt := modTarget{text: c.Text}
			for _, l := range leaves(ft) {
				mt.keys = append(mt.keys, fieldKey(t, joinPath(lit[k+1:], l.Path)))
				mt.sorts = append(mt.sorts, h.arrSort(vc.sortOf(l.T)))
			}
			return []modTarget{mt}
		}
	case *SSel:
		// x.f, or x.s.f where s is a struct-valued field (embedded by value) of *x
		names := []string{n.Name}
		bx := n.X
		base := env.Eval(bx)
		for {
			if _, isPtr := under(base.T).(*types.Pointer); isPtr {
				break
			}
			inner, isSel := bx.(*SSel)
			if _, isStruct := under(base.T).(*types.Struct); !isStruct || !isSel {
				sfail("modifies %s: base is not a pointer", c.Text)
			}
			names = append([]string{inner.Name}, names...)
			bx = inner.X
			base = env.Eval(bx)
		}
		pt := under(base.T).(*types.Pointer)
		var path []int
		ft := pt.Elem()
		for _, nm := range names {
			p1, t1, ok := findField(ft, nm)
			if !ok {
				sfail("modifies %s: no such field %s", c.Text, nm)
			}
			path = append(path, p1...)
			ft = t1
		}
		fp := x.fieldAddrPath(base, pt.Elem(), path)
		mt := modTarget{target: fp.S, text: c.Text}
		for _, l := range leaves(ft) {
			k, s := h.cellKeySort(fp.P, l.Path, l.T)
			mt.keys = append(mt.keys, k)
			mt.sorts = append(mt.sorts, s)
		}
		return []modTarget{mt}
	case *SIdent:
		// a pointer to a scalar: *p
		p := env.Eval(n)
		if pt, ok := under(p.T).(*types.Pointer); ok {
			p = x.fixPtr(p)
			mt := modTarget{target: p.S, text: c.Text}
			for _, l := range leaves(pt.Elem()) {
				k, s := h.cellKeySort(p.P, l.Path, l.T)
				mt.keys = append(mt.keys, k)
				mt.sorts = append(mt.sorts, s)
			}
			return []modTarget{mt}
		}
	}
	sfail("unsupported modifies location %q", c.Text)
	return nil
}

// ---- builtins ----

func (f *frame) builtin(b *ssa.Builtin, c *ssa.CallCommon, args []Val, site ssa.Instruction, pos string) Val {
	x := f.x
	h := x.heap
	switch b.Name() {
	case "len":
		v := args[0]
		switch under(v.T).(type) {
		case *types.Map:
			f.assume(h.mapFacts(f.st, v, ""))
			// a map with a key has positive length (needed to reason about `len(m) == 0` tests)
			mi := h.mapInfo(v.T)
			q := sym(x.vc.fresh("lk"))
			f.assume("(forall ((" + q + " " + mi.ksort + ")) " + Implies(Select(h.mapDom(f.st, v), q), app(">=", h.mapLen(f.st, v), "1")) + ")")
			return Val{T: intT, S: h.mapLen(f.st, v)}
		case *types.Slice:
			return Val{T: intT, S: v.Fs[2].S}
		case *types.Basic:
			return Val{T: intT, S: app("str.len", v.S)}
		case *types.Chan:
			return Val{T: intT, S: x.chanLen(f.st, v)}
		}
	case "cap":
		v := args[0]
		if _, ok := under(v.T).(*types.Slice); ok {
			return Val{T: intT, S: v.Fs[3].S}
		}
	case "delete":
		m := args[0]
		h.mapDelete(f.st, m, args[1].S)
		return Val{T: types.NewTuple()}
	case "append":
		return f.appendOp(args[0], args[1], pos)
	case "copy":
		return f.copyOp(args[0], args[1], pos)
	case "close":
		x.chanClose(f, args[0], pos)
		return Val{T: types.NewTuple()}
	case "print", "println":
		return Val{T: types.NewTuple()}
	case "min", "max":
		op := "<="
		if b.Name() == "max" {
			op = ">="
		}
		r := args[0]
		for _, a := range args[1:] {
			r = Val{T: r.T, S: Ite(app(op, r.S, a.S), r.S, a.S)}
		}
		return r
	case "ssa:wrapnilchk":
		f.safety("nil", "nil receiver", Not(Eq(args[0].S, "0")), pos)
		return args[0]
	}
	panic(unsupported("builtin " + b.Name() + " on " + fmt.Sprint(c.Args[0].Type())))
}

// appendOp models append(s, t...) following Go: in place when capacity allows,
// otherwise a fresh backing array.
func (f *frame) appendOp(s, t Val, pos string) Val {
	x := f.x
	h := x.heap
	vc := x.vc
	if isString(t.T) {
		panic(unsupported("append([]byte, string...)"))
	}
	et := sliceElem(s.T)
	sl, tl := s.Fs[2].S, t.Fs[2].S
	newLen := vc.Def("app.len", "Int", app("+", sl, tl))
	fits := vc.Def("app.fits", "Bool", app("<=", newLen, s.Fs[3].S))
	noop := Eq(tl, "0")
	freshBase := h.newArray(f.st)
	newCap := vc.Const("app.cap", "Int")
	f.assume(app(">=", newCap, newLen))
	// new element arrays
	for _, l := range leaves(et) {
		key := elemKey(et, l.Path)
		es := h.arrSort(vc.sortOf(l.T))
		sort := h.arrSort(es)
		cur := h.get(f.st, key, sort)
		src := Select(cur, t.Fs[0].S)
		// in place: dst[soff+slen+i] = src[toff+i] for 0<=i<tlen
		dst0 := Select(cur, s.Fs[0].S)
		inplace := vc.Const("app.arr", es)
		q := sym(vc.fresh("i"))
		f.assume("(forall ((" + q + " Int)) " + Eq(Select(inplace, q),
			Ite(And(app("<=", app("+", s.Fs[1].S, sl), q), app("<", q, app("+", s.Fs[1].S, newLen))),
				Select(src, app("+", t.Fs[1].S, app("-", q, app("+", s.Fs[1].S, sl)))),
				Select(dst0, q))) + ")")
		// fresh: arr[i] = s[soff+i] for i<slen ; t[toff+i-slen] for slen<=i<newLen
		fresh := vc.Const("app.new", es)
		q2 := sym(vc.fresh("i"))
		f.assume("(forall ((" + q2 + " Int)) " + Implies(And(app("<=", "0", q2), app("<", q2, newLen)), Eq(Select(fresh, q2),
			Ite(app("<", q2, sl), Select(dst0, app("+", s.Fs[1].S, q2)), Select(src, app("+", t.Fs[1].S, app("-", q2, sl)))))) + ")")
		// a single store keeps the heap term a flat chain (friendlier to the solvers than
		// an ite over whole heaps): E' = E[tgt := arr'], where a no-op rewrites the same value
		tgt := vc.Def("app.tgt", "Int", Ite(Or(fits, noop), s.Fs[0].S, freshBase))
		arr := Ite(noop, dst0, Ite(fits, inplace, fresh))
		h.set(f.st, key, sort, Store(cur, tgt, arr))
		if x.top == nil || !x.top.hasFlag("append-lemmas") {
			continue
		}
		// (flag append-lemmas on the unit under verification)
		// Consequences of the two definitions above, stated over the result heap so that
		// the solvers have ground terms to instantiate invariants with: the first appended
		// element, and the preserved prefix.
		nh := h.get(f.st, key, sort)
		roff := Ite(Or(fits, noop), s.Fs[1].S, "0")
		f.assume(Implies(app(">=", tl, "1"), Eq(Select(Select(nh, tgt), app("+", roff, sl)), Select(src, t.Fs[1].S))))
		q3 := sym(vc.fresh("i"))
		f.assume("(forall ((" + q3 + " Int)) (! " + Implies(And(app("<=", s.Fs[1].S, q3), app("<", q3, app("+", s.Fs[1].S, sl))),
			Eq(Select(Select(nh, tgt), app("+", roff, app("-", q3, s.Fs[1].S))), Select(dst0, q3))) + " :pattern (" + Select(dst0, q3) + ")))")
		q4 := sym(vc.fresh("i"))
		f.assume("(forall ((" + q4 + " Int)) (! " + Implies(And(app("<=", t.Fs[1].S, q4), app("<", q4, app("+", t.Fs[1].S, tl))),
			Eq(Select(Select(nh, tgt), app("+", roff, app("+", sl, app("-", q4, t.Fs[1].S)))), Select(src, q4))) + " :pattern (" + Select(src, q4) + ")))")
	}
	res := h.mkSlice(s.T,
		Ite(Or(fits, noop), s.Fs[0].S, freshBase),
		Ite(Or(fits, noop), s.Fs[1].S, "0"),
		Ite(noop, sl, newLen),
		Ite(Or(fits, noop), s.Fs[3].S, newCap))
	return res
}

func (f *frame) copyOp(dst, src Val, pos string) Val {
	x := f.x
	h := x.heap
	vc := x.vc
	if isString(src.T) {
		panic(unsupported("copy from string"))
	}
	et := sliceElem(dst.T)
	n := vc.Def("copy.n", "Int", Ite(app("<=", dst.Fs[2].S, src.Fs[2].S), dst.Fs[2].S, src.Fs[2].S))
	for _, l := range leaves(et) {
		key := elemKey(et, l.Path)
		es := h.arrSort(vc.sortOf(l.T))
		sort := h.arrSort(es)
		cur := h.get(f.st, key, sort)
		d0 := Select(cur, dst.Fs[0].S)
		s0 := Select(cur, src.Fs[0].S)
		na := vc.Const("copy.arr", es)
		q := sym(vc.fresh("i"))
		f.assume("(forall ((" + q + " Int)) " + Eq(Select(na, q),
			Ite(And(app("<=", dst.Fs[1].S, q), app("<", q, app("+", dst.Fs[1].S, n))),
				Select(s0, app("+", src.Fs[1].S, app("-", q, dst.Fs[1].S))),
				Select(d0, q))) + ")")
		h.set(f.st, key, sort, Store(cur, dst.Fs[0].S, na))
	}
	return Val{T: intT, S: n}
}

// ---- defers ----

func (f *frame) deferCall(n *ssa.Defer) {
	x := f.x
	ds := &deferSite{instr: n, flag: fmt.Sprintf("X:defer:%s:%d", f.fn.Name(), len(f.defers))}
	for _, a := range n.Call.Args {
		ds.args = append(ds.args, f.val(a))
	}
	if !n.Call.IsInvoke() {
		switch n.Call.Value.(type) {
		case *ssa.Function, *ssa.Builtin:
		default:
			ds.fnVal = f.val(n.Call.Value)
		}
	} else {
		ds.fnVal = f.val(n.Call.Value)
	}
	// the defer site may be in a loop-free position only
	for _, li := range f.loops {
		if li.body[n.Block()] {
			panic(unsupported("defer inside a loop"))
		}
	}
	f.defers = append(f.defers, ds)
	x.heap.set(f.st, ds.flag, "Bool", "true")
}

func (f *frame) runDefers(n *ssa.RunDefers) {
	x := f.x
	for i := len(f.defers) - 1; i >= 0; i-- {
		ds := f.defers[i]
		x.heap.declare(ds.flag, "Bool")
		flag, ok := f.st.heap[ds.flag]
		if !ok {
			continue // never registered on any path to here
		}
		if flag == "false" {
			continue
		}
		// run under condition flag
		saveCur := f.cur
		saveSt := f.st.clone()
		f.cur = x.vc.Def("dfr", "Bool", And(f.cur, flag))
		f.execDeferred(ds, f.pos(n))
		if f.dead {
			f.dead = false
			f.cur = x.vc.Def("dfr", "Bool", And(saveCur, Not(flag)))
			f.st = saveSt
			continue
		}
		ran := f.cur
		skipped := x.vc.Def("dfr", "Bool", And(saveCur, Not(flag)))
		f.st = x.mergeStates([]edgeIn{{cond: ran, st: f.st}, {cond: skipped, st: saveSt}})
		f.cur = x.vc.Def("dfr", "Bool", Or(ran, skipped))
	}
}

func (f *frame) execDeferred(ds *deferSite, pos string) {
	c := &ds.instr.Call
	// re-create the call with captured argument values
	if c.IsInvoke() {
		f.invoke(c, ds.fnVal, ds.args, pos)
		return
	}
	switch callee := c.Value.(type) {
	case *ssa.Builtin:
		f.builtin(callee, c, ds.args, ds.instr, pos)
	case *ssa.Function:
		f.callFunc(callee, ds.args, nil, c, pos)
	default:
		if cl, ok := f.x.closures[ds.fnVal.S]; ok {
			if cl != nil {
				f.callFunc(cl.Fn, ds.args, cl.Bindings, c, pos)
			}
			return
		}
		f.unknownCall("func:deferred", append([]Val{ds.fnVal}, ds.args...), c.Signature().Results(), pos)
	}
}

// ---- pure use of real Go functions inside specs ----

func (x *Exec) pureMethodCall(e *Env, recv Val, name string, args []Val) Val {
	t := recv.T
	var fn *ssa.Function
	for _, tt := range []types.Type{t, types.NewPointer(t)} {
		ms := x.prog.SSA.MethodSets.MethodSet(tt)
		for i := 0; i < ms.Len(); i++ {
			if ms.At(i).Obj().Name() == name {
				fn = x.prog.SSA.MethodValue(ms.At(i))
			}
		}
		if fn != nil {
			break
		}
	}
	if fn == nil {
		sfail("no method %s on %s", name, t)
	}
	return x.pureRun(e, fn, append([]Val{recv}, args...))
}

func (x *Exec) pureFuncCall(e *Env, n *SCall) (Val, bool) {
	if e.pkg == nil {
		return Val{}, false
	}
	name := n.Fun
	pkg := e.pkg
	if k := strings.Index(name, "__"); k > 0 {
		for _, p := range x.prog.All {
			if p.Types != nil && p.Types.Name() == name[:k] {
				pkg = p.Types
				name = name[k+2:]
				break
			}
		}
	}
	sp := x.prog.SSA.Package(pkg)
	if sp == nil {
		return Val{}, false
	}
	fn := sp.Func(name)
	if fn == nil {
		return Val{}, false
	}
	var args []Val
	for i, a := range n.Args {
		v := e.Eval(a)
		if i < len(fn.Params) {
			v = e.coerce(v, fn.Params[i].Type())
		}
		args = append(args, v)
	}
	return x.pureRun(e, fn, args), true
}

// pureRun symbolically executes a loop-free function on a scratch copy of the
// current state and returns its result (side effects are discarded; safety
// obligations inside are not generated).
func (x *Exec) pureRun(e *Env, fn *ssa.Function, args []Val) Val {
	if !inlinable(fn) || len(fn.Blocks) == 0 {
		sfail("function %s cannot be used in specs (has loops or no body)", fn)
	}
	for i, p := range fn.Params {
		if i < len(args) {
			args[i] = e.coerce(args[i], p.Type())
			args[i].T = p.Type()
			args[i] = x.fixPtrs(args[i])
		}
	}
	saveObls := x.vc.Obls
	saveNames := x.oblNames
	x.oblNames = map[string]int{}
	saveAbs := x.abstracted
	x.pureDepth++
	r := x.run(fn, args, nil, e.cur.clone(), "true", x.opts.InlineDepth-2, false)
	x.pureDepth--
	x.vc.Obls = saveObls
	x.oblNames = saveNames
	x.abstracted = saveAbs
	if r.noRet {
		sfail("function %s does not return", fn)
	}
	return r.val
}
