package engine

import (
	"golang.org/x/tools/go/ssa/ssautil"
	"fmt"
	"go/types"
	"strings"

	"golang.org/x/tools/go/ssa"
)

// ---- ghost call logs ----
//
// For each call class C: X:calls:C:n (Int) number of calls so far;
// X:calls:C:a<i>:<leaf> (Array Int S) argument i of call number k;
// X:calls:C:r<j>:<leaf> result j; X:calls:C:seq (Array Int Int) global sequence
// number of call k.  X:seq is the global event counter.

func (x *Exec) ghostCallCount(st *State, cls string) string {
	return x.heap.get(st, "X:calls:"+cls+":n", "Int")
}

func (x *Exec) ghostCallKeys(cls string) []string {
	var out []string
	pre := "X:calls:" + cls + ":"
	x.heap.declare(pre+"n", "Int")
	x.heap.declare(pre+"seq", "(Array Int Int)")
	for _, k := range x.heap.order {
		if strings.HasPrefix(k, pre) {
			out = append(out, k)
		}
	}
	return out
}

func (x *Exec) ghostSeqKey(mt *modTarget) {
	x.heap.declare("X:seq", "Int")
	mt.keys = append(mt.keys, "X:seq")
	mt.sorts = append(mt.sorts, "Int")
}

func (x *Exec) ghostLogCall(st *State, cls string, args []Val, res Val) {
	x.ghostLogCallIf(st, "true", cls, args, res)
}

// ghostLogCallIf logs the call only when cond holds (the slot at the current length is
// written either way; it is beyond the log's length, hence invisible, when cond is false).
func (x *Exec) ghostLogCallIf(st *State, cond string, cls string, args []Val, res Val) {
	h := x.heap
	pre := "X:calls:" + cls + ":"
	n := h.get(st, pre+"n", "Int")
	for i, a := range args {
		eachLeaf(a, "", func(path string, lv Val) {
			k := fmt.Sprintf("%sa%d:%s", pre, i, path)
			sort := h.arrSort(x.vc.sortOf(lv.T))
			h.set(st, k, sort, Store(h.get(st, k, sort), n, lv.S))
		})
		x.noteSlotType(cls, false, i, a.T)
	}
	if tup, ok := res.T.(*types.Tuple); ok {
		for j := 0; j < tup.Len(); j++ {
			eachLeaf(res.Fs[j], "", func(path string, lv Val) {
				k := fmt.Sprintf("%sr%d:%s", pre, j, path)
				sort := h.arrSort(x.vc.sortOf(lv.T))
				h.set(st, k, sort, Store(h.get(st, k, sort), n, lv.S))
			})
			x.noteSlotType(cls, true, j, tup.At(j).Type())
		}
	}
	seq := h.get(st, "X:seq", "Int")
	h.set(st, pre+"seq", "(Array Int Int)", Store(h.get(st, pre+"seq", "(Array Int Int)"), n, seq))
	if cond == "true" {
		h.set(st, "X:seq", "Int", app("+", seq, "1"))
		h.set(st, pre+"n", "Int", app("+", n, "1"))
		return
	}
	h.set(st, "X:seq", "Int", Ite(cond, app("+", seq, "1"), seq))
	h.set(st, pre+"n", "Int", Ite(cond, app("+", n, "1"), n))
}

func (x *Exec) noteSlotType(cls string, ret bool, i int, t types.Type) {
	if x.slotTypes == nil {
		x.slotTypes = map[string]types.Type{}
	}
	x.slotTypes[fmt.Sprintf("%s|%v|%d", cls, ret, i)] = t
}

// ghostCallSlot reads argument/result slot j of call number i of class cls.
func (x *Exec) ghostCallSlot(st *State, cls string, ret bool, j int, i string) Val {
	t, ok := x.slotTypes[fmt.Sprintf("%s|%v|%d", cls, ret, j)]
	if !ok {
		t = x.prog.slotType(cls, ret, j)
		if t == nil {
			sfail("call class %q slot %d: unknown type (no such call seen; declare it with `logs`)", cls, j)
		}
	}
	pre := "X:calls:" + cls + ":"
	tag := "a"
	if ret {
		tag = "r"
	}
	v := x.vc.buildVal(t, "", func(path string, lt types.Type) string {
		k := fmt.Sprintf("%s%s%d:%s", pre, tag, j, path)
		return Select(x.heap.get(st, k, x.heap.arrSort(x.vc.sortOf(lt))), i)
	})
	return v
}

func (x *Exec) ghostCallSeq(st *State, cls string, i string) string {
	return Select(x.heap.get(st, "X:calls:"+cls+":seq", "(Array Int Int)"), i)
}

// slotType finds the static type of a call-class slot from declared call classes.
func (prog *Program) slotType(cls string, ret bool, j int) types.Type {
	if ct := prog.Externs[cls]; ct != nil {
		// an extern contract declares the types of its parameters and results
		vs := ct.Params
		if ret {
			vs = ct.Results
		}
		if j < len(vs) && vs[j].Type != "" {
			pk := ct.Pkg
			if pk == nil {
				for _, p := range prog.Pkgs {
					pk = p.Types
					break
				}
			}
			if t, err := prog.resolveType(vs[j].Type, pk); err == nil {
				return t
			}
		}
	}
	if k := strings.LastIndex(cls, "."); k > 0 && !strings.HasPrefix(cls, "(") && !strings.HasPrefix(cls, "func:") && !strings.Contains(cls, ":") {
		// a package-level function of a loaded package, named as go/ssa prints it: pkgpath.Name
		if sp := prog.SSA.ImportedPackage(cls[:k]); sp != nil {
			if fn := sp.Func(cls[k+1:]); fn != nil {
				sig := fn.Signature
				if ret {
					if j < sig.Results().Len() {
						return sig.Results().At(j).Type()
					}
				} else if j < sig.Params().Len() {
					return sig.Params().At(j).Type()
				}
			}
		}
	}
	if strings.HasPrefix(cls, "(") && !strings.Contains(cls, ":") {
		// a method of a loaded package, named as go/ssa prints it: (*pkgpath.T).M — slot 0 is the receiver
		if prog.methodSigs == nil {
			prog.methodSigs = map[string]*types.Signature{}
			for fn := range ssautil.AllFunctions(prog.SSA) {
				if fn.Signature != nil && fn.Signature.Recv() != nil {
					prog.methodSigs[fn.String()] = fn.Signature
				}
			}
		}
		if sig, ok := prog.methodSigs[cls]; ok {
			if ret {
				if j < sig.Results().Len() {
					return sig.Results().At(j).Type()
				}
			} else if j == 0 {
				return sig.Recv().Type()
			} else if j-1 < sig.Params().Len() {
				return sig.Params().At(j - 1).Type()
			}
		}
	}
	if strings.HasPrefix(cls, "yaml.Unmarshal:") {
		// see mYamlUnmarshal: (string) -> (error, decoded value)
		switch {
		case !ret && j == 0:
			return stringT
		case ret && j == 0:
			return errorT()
		case ret && (j == 1 || j == 2):
			for _, p := range prog.All {
				if p.Types != nil && p.Types.Name() == "main" {
					if t, err := prog.resolveType(strings.TrimPrefix(cls, "yaml.Unmarshal:"), p.Types); err == nil {
						return t
					}
				}
			}
		}
		return nil
	}
	if _, ok := prog.classSigs[cls]; !ok && strings.HasPrefix(cls, "func:") {
		// function-valued struct fields "func:pkg.Type.field": slot 0 is the function value itself
		parts := strings.Split(strings.TrimPrefix(cls, "func:"), ".")
		if len(parts) == 3 {
			for _, p := range prog.All {
				if p.Types == nil || p.Types.Name() != parts[0] {
					continue
				}
				if obj := p.Types.Scope().Lookup(parts[1]); obj != nil {
					if st, ok := obj.Type().Underlying().(*types.Struct); ok {
						for i := 0; i < st.NumFields(); i++ {
							if st.Field(i).Name() == parts[2] {
								if sig, ok := st.Field(i).Type().Underlying().(*types.Signature); ok {
									prog.classSigs[cls] = sig
									prog.classRecv[cls] = st.Field(i).Type()
								}
							}
						}
					}
				}
			}
		}
	}
	if _, ok := prog.classSigs[cls]; !ok {
		// interface method classes "pkg.Iface.Method": derive the signature from the interface
		parts := strings.Split(cls, ".")
		if len(parts) == 3 {
			for _, p := range prog.All {
				if p.Types == nil || p.Types.Name() != parts[0] {
					continue
				}
				if obj := p.Types.Scope().Lookup(parts[1]); obj != nil {
					if it, ok := obj.Type().Underlying().(*types.Interface); ok {
						for i := 0; i < it.NumMethods(); i++ {
							if it.Method(i).Name() == parts[2] {
								prog.classSigs[cls] = it.Method(i).Type().(*types.Signature)
								prog.classRecv[cls] = obj.Type()
							}
						}
					}
				}
			}
		}
	}
	if sig, ok := prog.classSigs[cls]; ok {
		if ret {
			if j < sig.Results().Len() {
				return sig.Results().At(j).Type()
			}
			return nil
		}
		// slot 0 is the receiver (methods); functions start at their first parameter
		rt, hasRecv := prog.classRecv[cls]
		if hasRecv {
			if j == 0 {
				return rt
			}
			j--
		}
		if j < sig.Params().Len() {
			return sig.Params().At(j).Type()
		}
	}
	return nil
}

// ---- ghost variables declared by contracts ----

func (x *Exec) ghostVar(st *State, name string) Val {
	k := "X:g:" + name
	gd, ok := x.prog.Ghosts[name]
	if !ok {
		sfail("unknown ghost variable %q", name)
	}
	t := x.resolveType(gd.Type, gd.Pkg)
	return Val{T: t, S: x.heap.get(st, k, x.vc.sortOf(t))}
}

// ---- locks ----

func lockKey(kind, key string) (string, string) {
	switch kind {
	case "held", "done":
		return "X:lock:" + kind + ":" + key, "(Array Int Bool)"
	case "rheld", "epoch":
		return "X:lock:" + kind + ":" + key, "(Array Int Int)"
	}
	panic("lockKey")
}

func (x *Exec) ghostLock(st *State, kind string, loc lockLoc) Val {
	k, s := lockKey(kind, loc.Key)
	t := Select(x.heap.get(st, k, s), loc.Base)
	if kind == "held" || kind == "done" {
		return boolVal(t)
	}
	return Val{T: intT, S: t}
}

func (f *frame) lockLocOf(v Val) lockLoc {
	v = f.x.fixPtr(v)
	if v.P.Kind == ptrGlobal {
		return lockLoc{Base: "1", Key: "global:" + v.P.Global + ":" + v.P.Path}
	}
	return lockLoc{Base: v.S, Key: typeKey(v.P.Root) + ":" + v.P.Path}
}

func (f *frame) lockSet(kind string, loc lockLoc, val string) {
	k, s := lockKey(kind, loc.Key)
	h := f.x.heap
	h.set(f.st, k, s, Store(h.get(f.st, k, s), loc.Base, val))
}

func (f *frame) lockGet(kind string, loc lockLoc) string {
	k, s := lockKey(kind, loc.Key)
	return Select(f.x.heap.get(f.st, k, s), loc.Base)
}

// ---- channels ----
// A channel is a reference with ghost state: closed (Bool), len (Int), cap (Int).
// Contents are not tracked except through contracts; a receive yields an arbitrary
// value (or the zero value with ok=false when closed and empty).

// channel ghost state is kept per channel type (channels of different element types
// cannot be the same object)
func chanKey(kind string, t types.Type) string {
	if c, ok := under(t).(*types.Chan); ok {
		return "X:chan:" + kind + ":" + typeKey(c.Elem())
	}
	return "X:chan:" + kind + ":" + typeKey(under(t))
}

func (x *Exec) chanInit(st *State, ch Val, size string) {
	h := x.heap
	h.set(st, chanKey("closed", ch.T), "(Array Int Bool)", Store(h.get(st, chanKey("closed", ch.T), "(Array Int Bool)"), ch.S, "false"))
	h.set(st, chanKey("len", ch.T), "(Array Int Int)", Store(h.get(st, chanKey("len", ch.T), "(Array Int Int)"), ch.S, "0"))
	h.set(st, chanKey("cap", ch.T), "(Array Int Int)", Store(h.get(st, chanKey("cap", ch.T), "(Array Int Int)"), ch.S, size))
}

func (x *Exec) chanLen(st *State, ch Val) string {
	return Select(x.heap.get(st, chanKey("len", ch.T), "(Array Int Int)"), ch.S)
}

func (x *Exec) chanClosed(st *State, ch Val) string {
	return Select(x.heap.get(st, chanKey("closed", ch.T), "(Array Int Bool)"), ch.S)
}

func (x *Exec) chanClose(f *frame, ch Val, pos string) {
	h := x.heap
	f.safety("closenil", "close of nil channel", Not(Eq(ch.S, "0")), pos)
	f.safety("closeclosed", "close of closed channel", Not(x.chanClosed(f.st, ch)), pos)
	h.set(f.st, chanKey("closed", ch.T), "(Array Int Bool)", Store(h.get(f.st, chanKey("closed", ch.T), "(Array Int Bool)"), ch.S, "true"))
	x.ghostLogCall(f.st, "chan.close", []Val{ch}, Val{T: types.NewTuple()})
}

func (x *Exec) chanSend(f *frame, ch Val, v Val, pos string) {
	f.safety("sendclosed", "send on closed channel", Not(x.chanClosed(f.st, ch)), pos)
	f.callSiteAsserts("chan.send", 1, []Val{ch, v}, pos)
	x.ghostLogCall(f.st, "chan.send:"+typeKey(ch.T), []Val{ch, v}, Val{T: types.NewTuple()})
}

func (x *Exec) chanRecv(f *frame, ch Val, commaOk bool, t types.Type, pos string) Val {
	et := under(ch.T).(*types.Chan).Elem()
	v := x.vc.freshVal(et, "recv")
	v = x.fixPtrs(v)
	f.assume(x.heap.valAssume(f.st, v))
	okc := x.vc.Const("recv.ok", "Bool")
	// a closed, drained channel yields the zero value with ok=false; blocking forever is an infeasible path
	zero := x.vc.zeroVal(et)
	val := x.vc.iteVal(okc, v, zero)
	f.assume(Implies(Not(okc), x.chanClosed(f.st, ch)))
	x.ghostLogCall(f.st, "chan.recv:"+typeKey(ch.T), []Val{ch}, Val{T: types.NewTuple(types.NewVar(0, nil, "", et)), Fs: []Val{val}})
	if commaOk {
		return Val{T: t, Fs: []Val{val, {T: boolT, S: okc}}}
	}
	return val
}

// selectStmt: free choice among the cases (all arrival orders).
func (f *frame) selectStmt(n *ssa.Select) {
	x := f.x
	idx := x.vc.Const("select.idx", "Int")
	lo := "0"
	if !n.Blocking {
		lo = "(- 1)"
	}
	f.assume(And(app("<=", lo, idx), app("<", idx, IntLit(int64(len(n.States))))))
	okc := x.vc.Const("select.ok", "Bool")
	out := Val{T: n.Type(), Fs: []Val{{T: intT, S: idx}, {T: boolT, S: okc}}}
	for i, s := range n.States {
		ch := f.val(s.Chan)
		if s.Dir == types.RecvOnly {
			et := under(s.Chan.Type()).(*types.Chan).Elem()
			v := x.fixPtrs(x.vc.freshVal(et, fmt.Sprintf("select.recv%d", i)))
			f.assume(x.heap.valAssume(f.st, v))
			f.assume(Implies(And(Eq(idx, IntLit(int64(i))), Not(okc)), x.chanClosed(f.st, ch)))
			if !x.prog.everSent(s.Chan.Type()) {
				// nothing in the repository sends on channels of this type (they are only closed):
				// a receive can only complete because the channel was closed
				x.vc.Assume["channels of type "+s.Chan.Type().String()+" are never sent on in the repository (checked syntactically); a receive completes only after close"] = true
				f.assume(Implies(Eq(idx, IntLit(int64(i))), Not(okc)))
			}
			zero := x.vc.zeroVal(et)
			out.Fs = append(out.Fs, x.vc.iteVal(okc, v, zero))
		} else {
			f.safety("sendclosed", "send on closed channel in select", Implies(Eq(idx, IntLit(int64(i))), Not(x.chanClosed(f.st, ch))), f.pos(n))
			f.callSiteAssertsIf(Eq(idx, IntLit(int64(i))), "chan.send", 1, []Val{ch, f.val(s.Send)}, f.pos(n))
			x.ghostLogCallIf(f.st, Eq(idx, IntLit(int64(i))), "chan.send:"+typeKey(ch.T), []Val{ch, f.val(s.Send)}, Val{T: types.NewTuple()})
		}
	}
	f.regs[n] = out
}

// ---- static scan of written heap keys (for loop havoc) ----

type modScanner struct {
	x           *Exec
	keys        map[string]bool
	seen        map[*ssa.Function]bool
	classes     []string
	lockTouched bool
}

func (sc *modScanner) add(key, sort string) {
	sc.x.heap.declare(key, sort)
	sc.keys[key] = true
}

func (sc *modScanner) addLeaves(root types.Type, path string, t types.Type, kind int, global string) {
	h := sc.x.heap
	for _, l := range leaves(t) {
		p := &Ptr{Kind: kind, Root: root, Path: path, Global: global}
		k, s := h.cellKeySort(p, l.Path, l.T)
		sc.add(k, s)
	}
}

// addrRoot statically determines the heap cells an address refers to.
func addrRoot(v ssa.Value) (kind int, root types.Type, path string, global string, ok bool) {
	switch n := v.(type) {
	case *ssa.FieldAddr:
		k, r, p, g, ok := addrRoot(n.X)
		if !ok {
			return 0, nil, "", "", false
		}
		st := under(n.X.Type()).(*types.Pointer).Elem()
		fname := under(st).(*types.Struct).Field(n.Field).Name()
		return k, r, joinPath(p, fname), g, true
	case *ssa.IndexAddr:
		if s, ok := under(n.X.Type()).(*types.Slice); ok {
			return ptrElem, s.Elem(), "", "", true
		}
		// element of array object
		if p, ok := under(n.X.Type()).(*types.Pointer); ok {
			if a, ok := under(p.Elem()).(*types.Array); ok {
				return ptrElem, a.Elem(), "", "", true
			}
		}
		return addrRoot(n.X)
	case *ssa.Global:
		return ptrGlobal, n.Type().(*types.Pointer).Elem(), "", n.Pkg.Pkg.Name() + "." + n.Name(), true
	default:
		if p, ok := under(v.Type()).(*types.Pointer); ok {
			return ptrObj, p.Elem(), "", "", true
		}
	}
	return 0, nil, "", "", false
}

func (sc *modScanner) mapKeys(t types.Type) {
	h := sc.x.heap
	mi := h.mapInfo(t)
	sc.add(mi.domKey, mi.domSort)
	sc.add(mi.lenKey, h.arrSort("Int"))
	for _, l := range leaves(mi.m.Elem()) {
		sc.add(mi.valKey(l.Path), h.arrSort("(Array "+mi.ksort+" "+sc.x.vc.sortOf(l.T)+")"))
	}
}

func (sc *modScanner) elemKeys(et types.Type) {
	h := sc.x.heap
	for _, l := range leaves(et) {
		sc.add(elemKey(et, l.Path), h.arrSort(h.arrSort(sc.x.vc.sortOf(l.T))))
	}
}

func (sc *modScanner) instr(in ssa.Instruction, depth int) {
	_ = sc.x
	switch n := in.(type) {
	case *ssa.Store:
		k, r, p, g, ok := addrRoot(n.Addr)
		if !ok {
			panic(unsupported("store through unanalysable address in loop"))
		}
		sc.addLeaves(r, p, n.Val.Type(), k, g)
	case *ssa.Alloc:
		t := n.Type().(*types.Pointer).Elem()
		if a, ok := under(t).(*types.Array); ok {
			sc.elemKeys(a.Elem())
			sc.keys[allocKey] = true
			return
		}
		sc.addLeaves(t, "", t, ptrObj, "")
		sc.keys[allocKey] = true
	case *ssa.MapUpdate:
		sc.mapKeys(n.Map.Type())
	case *ssa.MakeMap:
		sc.mapKeys(n.Type())
		sc.keys[allocKey] = true
	case *ssa.MakeSlice:
		sc.elemKeys(sliceElem(n.Type()))
		sc.keys[allocKey] = true
	case *ssa.MakeChan:
		sc.add(chanKey("closed", n.Type()), "(Array Int Bool)")
		sc.add(chanKey("len", n.Type()), "(Array Int Int)")
		sc.add(chanKey("cap", n.Type()), "(Array Int Int)")
		sc.keys[allocKey] = true
	case *ssa.Convert:
		if isByteSlice(n.Type()) && isString(n.X.Type()) {
			sc.elemKeys(sliceElem(n.Type()))
			sc.keys[allocKey] = true
		}
	case *ssa.Send:
		sc.ghostClass("chan.send:" + typeKey(n.Chan.Type()))
	case *ssa.UnOp:
		if n.Op.String() == "<-" {
			sc.ghostClass("chan.recv:" + typeKey(n.X.Type()))
		}
	case *ssa.Select:
		for _, st := range n.States {
			if st.Dir == types.SendOnly {
				sc.ghostClass("chan.send:" + typeKey(st.Chan.Type()))
			}
		}
	case *ssa.Defer:
		// handled as unsupported in loops elsewhere
	case *ssa.Call:
		sc.call(&n.Call, depth)
	case *ssa.Go:
	}
}

func (sc *modScanner) ghostClass(cls string) {
	h := sc.x.heap
	pre := "X:calls:" + cls + ":"
	sc.add(pre+"n", "Int")
	sc.add(pre+"seq", "(Array Int Int)")
	sc.add("X:seq", "Int")
	for _, k := range h.order {
		if strings.HasPrefix(k, pre) {
			sc.keys[k] = true
		}
	}
	sc.classes = append(sc.classes, cls)
}

func (sc *modScanner) call(c *ssa.CallCommon, depth int) {
	x := sc.x
	sc.keys[allocKey] = true
	if c.IsInvoke() {
		cls := typeKey(c.Value.Type()) + "." + c.Method.Name()
		if strings.HasPrefix(cls, "log.Logger.") || strings.HasPrefix(cls, "logrus.") {
			return
		}
		if ct := x.prog.Externs[cls]; ct != nil {
			sc.contract(ct)
			return
		}
		sc.ghostClass(cls)
		return
	}
	switch callee := c.Value.(type) {
	case *ssa.Builtin:
		switch callee.Name() {
		case "delete":
			sc.mapKeys(c.Args[0].Type())
		case "append":
			sc.elemKeys(sliceElem(c.Args[0].Type()))
		case "copy":
			sc.elemKeys(sliceElem(c.Args[0].Type()))
		case "close":
			sc.add(chanKey("closed", c.Args[0].Type()), "(Array Int Bool)")
			sc.ghostClass("chan.close")
		}
	case *ssa.Function:
		if ks, ok := externModelKeys[callee.String()]; ok {
			ks(sc, c)
			return
		}
		sc.fn(callee, depth)
	case *ssa.MakeClosure:
		sc.fn(callee.Fn.(*ssa.Function), depth)
	default:
		// dynamic function value: could be a known closure; conservatively scan all closures created in this unit
		for _, cl := range x.closures {
			if cl != nil {
				sc.fn(cl.Fn, depth)
			}
		}
		sc.ghostClass("func:" + (&frame{}).funcValClass(c.Value))
	}
}

func (sc *modScanner) fn(fn *ssa.Function, depth int) {
	x := sc.x
	name := fn.String()
	if _, ok := externModelKeys[name]; ok {
		return
	}
	if _, ok := externModels[name]; ok {
		return
	}
	if strings.Contains(name, "logrus") || strings.Contains(name, "containerd/log.") || strings.Contains(name, "nri/pkg/log.") {
		return
	}
	if ct := x.prog.Contracts[fn]; ct != nil && !ct.Inline {
		sc.contract(ct)
		return
	}
	if ct := x.prog.Externs[name]; ct != nil {
		sc.contract(ct)
		return
	}
	if len(fn.Blocks) > 0 && (x.prog.isRepoFunc(fn) || (inlinable(fn) && x.prog.inlineLib(fn))) {
		sc.body(fn, depth)
		return
	}
	sc.ghostClass(name)
}

// body scans every instruction of fn (loops do not matter for a static write set).
func (sc *modScanner) body(fn *ssa.Function, depth int) {
	if sc.seen[fn] {
		return
	}
	sc.seen[fn] = true
	for _, b := range fn.Blocks {
		for _, in := range b.Instrs {
			sc.instr(in, depth+1)
		}
	}
	// closures created by fn may be called (directly, deferred, through sync.Once.Do ...)
	for _, a := range fn.AnonFuncs {
		sc.body(a, depth+1)
	}
}

// staticWrites returns the heap keys fn may write, computed statically.
func (x *Exec) staticWrites(fn *ssa.Function) map[string]bool {
	if x.writeSets == nil {
		x.writeSets = map[*ssa.Function]map[string]bool{}
	}
	if ks, ok := x.writeSets[fn]; ok {
		return ks
	}
	sc := &modScanner{x: x, keys: map[string]bool{}, seen: map[*ssa.Function]bool{}}
	sc.body(fn, 0)
	x.writeSets[fn] = sc.keys
	return sc.keys
}

// contract: keys named by a callee's modifies clause (types only).
func (sc *modScanner) contract(ct *Contract) {
	x := sc.x
	if ct.Logs != "" {
		sc.ghostClass(ct.Logs)
	} else if ct.Extern {
		// calls of external functions under an assumed contract are ghost-logged under their own name
		sc.ghostClass(ct.Key)
	}
	if ct.ModStatic && ct.Fn != nil {
		sc.body(ct.Fn, 0)
		return
	}
	if ct.ModAll {
		panic(unsupported("call to a `modifies *` function inside a loop: " + ct.Key))
	}
	// evaluate modifies with dummy parameter values to obtain the keys
	var sig *types.Signature
	var args []Val
	if ct.Fn != nil {
		sig = ct.Fn.Signature
		for _, p := range ct.Fn.Params {
			args = append(args, x.fixPtrs(x.vc.zeroVal(p.Type())))
		}
	} else {
		for _, p := range ct.Params {
			t := x.resolveType(p.Type, ct.Pkg)
			args = append(args, x.fixPtrs(x.vc.zeroVal(t)))
		}
	}
	st := newState()
	env := x.contractEnv(ct, sig, args, st, st)
	for i := range ct.Modifies {
		for _, mt := range x.resolveModifies(env, &ct.Modifies[i]) {
			for j, k := range mt.keys {
				sc.add(k, mt.sorts[j])
			}
		}
	}
}

var _ = fmt.Sprint

// everSent: does any function of the repository send on a channel of this type?
func (prog *Program) everSent(ct types.Type) bool {
	if prog.sentTypes == nil {
		prog.sentTypes = map[string]bool{}
		for fn := range ssautil.AllFunctions(prog.SSA) {
			if !prog.isRepoFunc(fn) {
				continue
			}
			for _, b := range fn.Blocks {
				for _, in := range b.Instrs {
					switch n := in.(type) {
					case *ssa.Send:
						prog.sentTypes[typeKey(under(n.Chan.Type()).(*types.Chan).Elem())] = true
					case *ssa.Select:
						for _, st := range n.States {
							if st.Dir == types.SendOnly {
								prog.sentTypes[typeKey(under(st.Chan.Type()).(*types.Chan).Elem())] = true
							}
						}
					}
				}
			}
		}
	}
	c, ok := under(ct).(*types.Chan)
	if !ok {
		return true
	}
	return prog.sentTypes[typeKey(c.Elem())]
}
