package main

// Replay of a solver model on the real code.
//
// When an obligation of a function whose parameters are all of basic type (string, bool,
// integers) and whose results are of basic type or `error` comes back `sat`, the model's
// values for the parameters are turned into a Go test that calls the real function, the test
// is injected into the function's package with `go test -overlay` (nothing is written into the
// repository), and what the real code returns is compared with what the model predicts.
// The counterexample is confirmed when the real code returns what the model says it returns
// (for a postcondition) or panics (for a safety obligation): the model violates the obligation,
// and the real execution is the model's execution.  Functions with pointer, slice, map or
// interface parameters are not replayed (their models are heaps, not values); the VIOLATION
// line of those keeps the words no-failing-input-found.

import (
	"encoding/json"
	"fmt"
	"go/types"
	"os"
	"os/exec"
	"path/filepath"
	"regexp"
	"strconv"
	"strings"

	"nriverif/internal/engine"
)

type replayOutcome struct {
	Attempted bool
	Confirmed bool
	Call      string // the Go call expression that was run
	Predicted string // what the model says the function returns
	Actual    string // what the real code returned
	Test      string // the generated test
	Output    string // output of go test (trimmed)
	Why       string // why no replay / not confirmed
}

var defRe = regexp.MustCompile(`\(define-fun \|?([^ |]+)\|? \(\) (\w+) (.*)\)\s*$`)

// parseModel reads the 0-ary definitions of a z3/cvc5 model.
func parseModel(model string) (map[string]string, []string) {
	vals := map[string]string{}
	var order []string
	lines := strings.Split(model, "\n")
	for i := 0; i < len(lines); i++ {
		l := strings.TrimSpace(lines[i])
		if strings.HasPrefix(l, "(define-fun") && !strings.HasSuffix(l, ")") && i+1 < len(lines) {
			// z3 prints the value on the next line
			l = l + " " + strings.TrimSpace(lines[i+1])
			i++
		}
		m := defRe.FindStringSubmatch(l)
		if m == nil {
			continue
		}
		vals[m[1]] = m[3]
		order = append(order, m[1])
	}
	return vals, order
}

func smtInt(v string) (string, bool) {
	v = strings.TrimSpace(v)
	if m := regexp.MustCompile(`^\(- (\d+)\)$`).FindStringSubmatch(v); m != nil {
		return "-" + m[1], true
	}
	if regexp.MustCompile(`^\d+$`).MatchString(v) {
		return v, true
	}
	return "", false
}

// smtString decodes an SMT-LIB 2.6 string literal into bytes (code points above 255 are refused).
func smtString(v string) (string, bool) {
	v = strings.TrimSpace(v)
	if len(v) < 2 || v[0] != '"' || v[len(v)-1] != '"' {
		return "", false
	}
	v = strings.ReplaceAll(v[1:len(v)-1], `""`, `"`)
	var out []byte
	for i := 0; i < len(v); {
		if strings.HasPrefix(v[i:], `\u{`) {
			j := strings.IndexByte(v[i:], '}')
			if j < 0 {
				return "", false
			}
			n, err := strconv.ParseUint(v[i+3:i+j], 16, 32)
			if err != nil || n > 255 {
				return "", false
			}
			out = append(out, byte(n))
			i += j + 1
			continue
		}
		if strings.HasPrefix(v[i:], `\u`) && i+6 <= len(v) {
			if n, err := strconv.ParseUint(v[i+2:i+6], 16, 32); err == nil && n <= 255 {
				out = append(out, byte(n))
				i += 6
				continue
			}
		}
		out = append(out, v[i])
		i++
	}
	return string(out), true
}

func basicOf(t types.Type) *types.Basic {
	b, _ := t.Underlying().(*types.Basic)
	return b
}

func isErrorType(t types.Type) bool {
	return types.Identical(t, types.Universe.Lookup("error").Type())
}

// goLiteral renders a model value as a Go expression of type t.
func goLiteral(t types.Type, v string, have bool, q types.Qualifier) (string, bool) {
	b := basicOf(t)
	if b == nil {
		return "", false
	}
	var lit string
	switch {
	case b.Info()&types.IsString != 0:
		s := ""
		if have {
			var ok bool
			if s, ok = smtString(v); !ok {
				return "", false
			}
		}
		lit = strconv.Quote(s)
	case b.Info()&types.IsBoolean != 0:
		lit = "false"
		if have {
			if v != "true" && v != "false" {
				return "", false
			}
			lit = v
		}
	case b.Info()&types.IsInteger != 0:
		lit = "0"
		if have {
			var ok bool
			if lit, ok = smtInt(v); !ok {
				return "", false
			}
		}
	default:
		return "", false
	}
	return types.TypeString(t, q) + "(" + lit + ")", true
}

// tryReplay runs the model of a sat obligation against the real function.
func tryReplay(r *engine.UnitResult, o *engine.Obligation) (out replayOutcome) {
	if r == nil || r.Contract == nil || r.Contract.Fn == nil || o.Model == "" {
		out.Why = "no model or no function"
		return
	}
	fn := r.Contract.Fn
	if fn.Signature.Recv() != nil || len(fn.FreeVars) > 0 || fn.Pkg == nil || fn.Signature.Variadic() {
		out.Why = "method, closure or variadic function: the model is a heap, not a list of values"
		return
	}
	pkg := fn.Pkg.Pkg
	q := func(p *types.Package) string {
		if p == pkg {
			return ""
		}
		return p.Name()
	}
	vals, order := parseModel(o.Model)
	var args []string
	for _, p := range fn.Params {
		if basicOf(p.Type()) == nil {
			out.Why = "parameter " + p.Name() + " is not of basic type"
			return
		}
		if n, ok := p.Type().(*types.Named); ok && n.Obj().Pkg() != nil && n.Obj().Pkg() != pkg {
			out.Why = "parameter type from another package"
			return
		}
		var v string
		have := false
		for _, name := range order {
			if strings.HasPrefix(name, "p."+p.Name()+"!") {
				v, have = vals[name], true
				break
			}
		}
		lit, ok := goLiteral(p.Type(), v, have, q)
		if !ok {
			out.Why = "model value of " + p.Name() + " cannot be written as a Go literal: " + v
			return
		}
		args = append(args, lit)
	}
	res := fn.Signature.Results()
	leaves := 0
	for i := 0; i < res.Len(); i++ {
		switch {
		case isErrorType(res.At(i).Type()):
			leaves += 2
		case basicOf(res.At(i).Type()) != nil && basicOf(res.At(i).Type()).Info()&(types.IsString|types.IsBoolean|types.IsInteger) != 0:
			leaves++
		default:
			out.Why = "result " + strconv.Itoa(i) + " is neither basic nor error"
			return
		}
	}
	// predicted results: the last `leaves` definitions named rv!N
	var rvs []string
	for _, name := range order {
		if strings.HasPrefix(name, "rv!") {
			rvs = append(rvs, vals[name])
		}
	}
	predicted := []string{}
	havePred := o.Kind == "ensures" && len(rvs) >= leaves && leaves > 0
	if havePred {
		rvs = rvs[len(rvs)-leaves:]
		k := 0
		for i := 0; i < res.Len() && havePred; i++ {
			t := res.At(i).Type()
			switch {
			case isErrorType(t):
				if rvs[k] == "0" {
					predicted = append(predicted, "nil")
				} else {
					predicted = append(predicted, "non-nil")
				}
				k += 2
			case basicOf(t).Info()&types.IsString != 0:
				s, ok := smtString(rvs[k])
				havePred = ok
				predicted = append(predicted, strconv.Quote(s))
				k++
			case basicOf(t).Info()&types.IsInteger != 0:
				s, ok := smtInt(rvs[k])
				havePred = ok
				predicted = append(predicted, s)
				k++
			default:
				predicted = append(predicted, rvs[k])
				k++
			}
		}
	}
	// the test
	file := fn.Prog.Fset.Position(fn.Pos()).Filename
	dir := filepath.Dir(file)
	call := fn.Name() + "(" + strings.Join(args, ", ") + ")"
	var b strings.Builder
	fmt.Fprintf(&b, "package %s\n\nimport (\n\t\"fmt\"\n\t\"testing\"\n)\n\n", pkg.Name())
	b.WriteString("// generated by nriverif from a solver model; injected with go test -overlay\n")
	b.WriteString("func TestNriverifReplay(t *testing.T) {\n")
	b.WriteString("\tdefer func() {\n\t\tif r := recover(); r != nil {\n\t\t\tfmt.Printf(\"NRIVERIF-REPLAY panic %v\\n\", r)\n\t\t}\n\t}()\n")
	var lhs, prints []string
	for i := 0; i < res.Len(); i++ {
		v := fmt.Sprintf("r%d", i)
		lhs = append(lhs, v)
		t := res.At(i).Type()
		switch {
		case isErrorType(t):
			prints = append(prints, fmt.Sprintf("func() string { if %s == nil { return \"nil\" }; return \"non-nil\" }()", v))
		case basicOf(t).Info()&types.IsString != 0:
			prints = append(prints, fmt.Sprintf("fmt.Sprintf(\"%%q\", string(%s))", v))
		default:
			prints = append(prints, fmt.Sprintf("fmt.Sprint(%s)", v))
		}
	}
	if len(lhs) > 0 {
		fmt.Fprintf(&b, "\t%s := %s\n", strings.Join(lhs, ", "), call)
		fmt.Fprintf(&b, "\tfmt.Printf(\"NRIVERIF-REPLAY returned %%s\\n\", fmt.Sprint([]string{%s}))\n", strings.Join(prints, ", "))
	} else {
		fmt.Fprintf(&b, "\t%s\n\tfmt.Println(\"NRIVERIF-REPLAY returned []\")\n", call)
	}
	b.WriteString("}\n")
	out.Test, out.Call, out.Attempted = b.String(), call, true
	out.Predicted = fmt.Sprint(predicted)

	tmp, err := os.MkdirTemp("", "nriverif-replay")
	if err != nil {
		out.Why = err.Error()
		return
	}
	defer os.RemoveAll(tmp)
	tf := filepath.Join(tmp, "zz_nriverif_replay_test.go")
	os.WriteFile(tf, []byte(out.Test), 0o644)
	ov, _ := json.Marshal(map[string]interface{}{"Replace": map[string]string{filepath.Join(dir, "zz_nriverif_replay_test.go"): tf}})
	ovf := filepath.Join(tmp, "ov.json")
	os.WriteFile(ovf, ov, 0o644)
	cmd := exec.Command("go", "test", "-overlay", ovf, "-vet=off", "-count=1", "-v", "-timeout", "60s", "-run", "^TestNriverifReplay$", ".")
	cmd.Dir = dir
	cmd.Env = append(os.Environ(), "GOFLAGS=-mod=mod", "GOPROXY=off", "GOSUMDB=off", "GOTOOLCHAIN=local")
	raw, _ := cmd.CombinedOutput()
	for _, l := range strings.Split(string(raw), "\n") {
		if strings.HasPrefix(l, "NRIVERIF-REPLAY ") {
			out.Actual = strings.TrimPrefix(l, "NRIVERIF-REPLAY ")
		}
	}
	if len(raw) > 2000 {
		raw = raw[len(raw)-2000:]
	}
	out.Output = string(raw)
	switch {
	case out.Actual == "":
		out.Why = "the replay test did not run to its report line"
	case strings.HasPrefix(out.Actual, "panic "):
		// a panic confirms a safety obligation; for a postcondition it is a violation of
		// the implicit "returns normally" only if the contract has no error/ panic clause
		out.Confirmed = o.Kind == "safety"
		if !out.Confirmed {
			out.Why = "the real code panics on the model's input (not what the model predicts)"
		}
	case o.Kind == "safety":
		out.Why = "the real code does not panic on the model's input"
	case !havePred:
		out.Why = "the model does not give the function's results"
	case out.Actual == "returned "+out.Predicted:
		out.Confirmed = true
	default:
		out.Why = "the real code returns something else than the model predicts (the encoding and the code disagree on this input)"
	}
	return
}

// replayable reports whether a model of this unit's obligations can be replayed by tryReplay.
func replayable(r *engine.UnitResult) bool {
	if r == nil || r.Contract == nil || r.Contract.Fn == nil {
		return false
	}
	fn := r.Contract.Fn
	if fn.Signature.Recv() != nil || len(fn.FreeVars) > 0 || fn.Pkg == nil || fn.Signature.Variadic() {
		return false
	}
	for _, p := range fn.Params {
		b := basicOf(p.Type())
		if b == nil || b.Info()&(types.IsString|types.IsBoolean|types.IsInteger) == 0 {
			return false
		}
		if n, ok := p.Type().(*types.Named); ok && n.Obj().Pkg() != nil && n.Obj().Pkg() != fn.Pkg.Pkg {
			return false
		}
	}
	res := fn.Signature.Results()
	for i := 0; i < res.Len(); i++ {
		t := res.At(i).Type()
		if isErrorType(t) {
			continue
		}
		if b := basicOf(t); b == nil || b.Info()&(types.IsString|types.IsBoolean|types.IsInteger) == 0 {
			return false
		}
	}
	return true
}
