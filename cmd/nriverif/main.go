package main

import (
	"encoding/json"
	"flag"
	"fmt"
	"os"
	"path/filepath"
	"sort"
	"strconv"
	"strings"
	"sync"
	"time"

	"nriverif/internal/engine"
)

type KnownFinding struct {
	ID         string `json:"id"`
	Property   string `json:"property"`
	Obligation string `json:"obligation"` // obligation name (or prefix ending in *)
	What       string `json:"what"`
	Status     string `json:"status"` // known | fixed
	Commit     string `json:"commit,omitempty"`
}

type Baseline struct {
	Discharged map[string][]string `json:"discharged"` // property -> obligation names discharged on the unchanged tree
}

func main() {
	if len(os.Args) < 2 {
		fmt.Fprintln(os.Stderr, "usage: nriverif check|list|replay ...")
		os.Exit(2)
	}
	switch os.Args[1] {
	case "check":
		os.Exit(cmdCheck(os.Args[2:]))
	case "replay":
		os.Exit(cmdReplay(os.Args[2:]))
	default:
		fmt.Fprintln(os.Stderr, "unknown command", os.Args[1])
		os.Exit(2)
	}
}

func verifDir() string {
	if d := os.Getenv("VERIF_DIR"); d != "" {
		return d
	}
	exe, err := os.Executable()
	if err == nil {
		d := filepath.Dir(filepath.Dir(exe))
		if _, err := os.Stat(filepath.Join(d, "MANIFEST.json")); err == nil {
			return d
		}
	}
	wd, _ := os.Getwd()
	return wd
}

type moduleSpec struct {
	dir      string
	patterns []string
}

func modulesFor(repo, prop string) []moduleSpec {
	main := moduleSpec{dir: repo, patterns: []string{"./pkg/adaptation", "./pkg/api", "./pkg/stub", "./pkg/net", "./pkg/net/multiplex", "./pkg/runtime-tools/generate"}}
	switch prop {
	case "C20":
		return []moduleSpec{
			{dir: filepath.Join(repo, "plugins/device-injector"), patterns: []string{".", "github.com/containerd/nri/pkg/api"}},
			{dir: filepath.Join(repo, "plugins/ulimit-adjuster"), patterns: []string{".", "github.com/containerd/nri/pkg/api"}},
		}
	}
	return []moduleSpec{main}
}

func cmdReplay(args []string) int {
	if len(args) < 1 {
		fmt.Fprintln(os.Stderr, "usage: nriverif replay <file>")
		return 2
	}
	data, err := os.ReadFile(args[0])
	if err != nil {
		fmt.Fprintln(os.Stderr, err)
		return 2
	}
	os.Stdout.Write(data)
	return 0
}

func cmdCheck(args []string) int {
	fs := flag.NewFlagSet("check", flag.ExitOnError)
	prop := fs.String("property", "", "property id (C01..C20)")
	tier := fs.String("tier", "", "quick | thorough")
	repo := fs.String("repo", "/repo", "repository root")
	only := fs.String("func", "", "only verify units whose name contains this string")
	keep := fs.Bool("keep", false, "keep SMT files (prints directory)")
	verbose := fs.Bool("v", false, "verbose")
	updateBaseline := fs.Bool("update-baseline", false, "record discharged obligations into baseline_obligations.json")
	timeout := fs.Int("timeout", 0, "per-obligation solver timeout in ms")
	progress := fs.Bool("progress", false, "print each obligation's result to stderr as soon as it is known")
	nocache := fs.Bool("nocache", false, "do not use the query-answer cache")
	noesc := fs.Bool("noescalate", false, "do not escalate undecided obligations to longer timeouts (debugging)")
	dump := fs.String("dump", "", "write the sliced SMT query of obligations whose name contains this string to the work dir and exit (debugging)")
	fs.Parse(args)
	if *tier == "" {
		*tier = os.Getenv("VERIF_TIER")
	}
	if *tier == "" {
		*tier = "quick"
	}
	seed := 0
	if s := os.Getenv("VERIF_SEED"); s != "" {
		seed, _ = strconv.Atoi(s)
	}
	if *prop == "" {
		fmt.Fprintln(os.Stderr, "--property required")
		return 2
	}
	vdir := verifDir()
	t0 := time.Now()
	engine.NameBaseline = loadNames(vdir)

	work, err := os.MkdirTemp("", "nriverif-*")
	if err != nil {
		fmt.Fprintln(os.Stderr, err)
		return 2
	}
	if *keep {
		fmt.Println("SMT files in", work)
	} else {
		defer os.RemoveAll(work)
	}

	cacheDir := filepath.Join(vdir, ".cache", "smt")
	if *nocache || os.Getenv("NRIVERIF_NOCACHE") != "" {
		cacheDir = ""
	}
	var results []*engine.UnitResult
	var resMu sync.Mutex
	tagCount := 0
	seenUnit := map[string]bool{} // a package loaded with several modules is verified once
	for _, ms := range modulesFor(*repo, *prop) {
		prog, err := engine.Load(ms.dir, ms.patterns, filepath.Join(vdir, "contracts", "extern"))
		if err != nil {
			fmt.Printf("CHECK-BROKEN: cannot load %s: %v\n", ms.dir, err)
			return 2
		}
		tagCount++
		// select units
		type unit struct {
			ct *engine.Contract
			lm *engine.Lemma
		}
		var units []unit
		for _, ct := range prog.Order {
			if !ct.ServesProperty(*prop) {
				continue
			}
			if *only != "" && !matchOnly(ct.Key, *only) {
				continue
			}
			if ct.Pkg != nil && ct.Pkg.Name() != "main" {
				k := ct.Pkg.Path() + "." + ct.Key
				if seenUnit[k] {
					continue
				}
				seenUnit[k] = true
			}
			units = append(units, unit{ct: ct})
		}
		for _, lm := range prog.Lemmas {
			if !hasStr(lm.Props, *prop) {
				continue
			}
			if *only != "" && !matchOnly(lm.Name, *only) {
				continue
			}
			units = append(units, unit{lm: lm})
		}
		// VC generation is sequential (shared type-tag tables), solving is parallel
		var wg sync.WaitGroup
		sem := make(chan struct{}, 12)
		for _, u := range units {
			var r *engine.UnitResult
			if u.ct != nil {
				opts := engine.Options{Thorough: *tier == "thorough", GuardedMerge: os.Getenv("NRIVERIF_ITEMERGE") == ""}
				r = prog.VerifyFunc(u.ct, opts)
			} else {
				r = prog.VerifyLemma(u.lm)
			}
			resMu.Lock()
			results = append(results, r)
			resMu.Unlock()
			if r.Err != nil {
				continue
			}
			if *dump != "" {
				for i, o := range r.VC.Obls {
					if strings.Contains(o.Name, *dump) {
						fn := filepath.Join(work, fmt.Sprintf("dump.%d.smt2", i))
						os.WriteFile(fn, []byte(engine.QueryScript(r.VC, o, false)), 0o644)
						fmt.Println(o.Name, "->", fn)
					}
				}
				continue
			}
			wg.Add(1)
			go func(r *engine.UnitResult) {
				defer wg.Done()
				sem <- struct{}{}
				defer func() { <-sem }()
				so := engine.SolveOpts{CacheDir: cacheDir, WorkDir: work, TimeoutMs: *timeout, SecondOpin: *tier == "thorough", Seed: seed, NoEscalate: *noesc}
				if *progress {
					so.Progress = func(o *engine.Obligation) {
						fmt.Fprintf(os.Stderr, "  %-8s %-22s %5.1fs %s\n", o.Status, o.Solver, o.TimeS, o.Name)
					}
				}
				if so.TimeoutMs == 0 {
					so.TimeoutMs = 10000
					if *tier == "thorough" {
						so.TimeoutMs = 30000
					}
				}
				if err := engine.Solve(r.VC, so); err != nil {
					r.Err = err
				}
			}(r)
		}
		wg.Wait()
		// Second pass for a previously verified function that now writes, inside a loop, a kind of
		// location its loop frame does not list (a new local map, say): rather than trusting or
		// rejecting the frame, verify the function again with those locations simply havocked by
		// the loop.  If everything else still proves, the new writes do not matter to the proof.
		base := loadBaseline(vdir)
		inBase := map[string]bool{}
		for _, n := range base.Discharged[*prop] {
			inBase[n] = true
		}
		for ri, r := range results {
			if r.Err != nil || r.Contract == nil || r.VC == nil || r.Relaxed != nil {
				continue
			}
			relax := map[string]bool{}
			for _, o := range r.VC.Obls {
				if o.Kind == "frame" && o.Status != "unsat" && o.Status != "sat" && !inBase[o.Name] && unitInBaseline(inBase, o.Name) {
					if i := strings.Index(o.Name, ".local."); i >= 0 {
						relax[strings.SplitN(o.Name[i+len(".local."):], "~", 2)[0]] = true
					}
				}
			}
			if len(relax) == 0 {
				continue
			}
			opts := engine.Options{Thorough: *tier == "thorough", GuardedMerge: os.Getenv("NRIVERIF_ITEMERGE") == "", RelaxFrame: relax}
			r2 := prog.VerifyFunc(r.Contract, opts)
			if r2.Err != nil {
				continue
			}
			so := engine.SolveOpts{CacheDir: cacheDir, WorkDir: work, TimeoutMs: *timeout, SecondOpin: *tier == "thorough", Seed: seed, NoEscalate: *noesc}
			if so.TimeoutMs == 0 {
				so.TimeoutMs = 10000
				if *tier == "thorough" {
					so.TimeoutMs = 30000
				}
			}
			if err := engine.Solve(r2.VC, so); err != nil {
				continue
			}
			for k := range relax {
				r2.Relaxed = append(r2.Relaxed, k)
			}
			sort.Strings(r2.Relaxed)
			results[ri] = r2
		}
	}
	// evidence and baselines are records of /repo itself, of a whole property, on a tree that is
	// not being experimented with: nothing is written for partial runs, other repositories, or
	// when NRIVERIF_NOEVIDENCE is set (seeded-change evaluation)
	partial := *only != "" || filepath.Clean(*repo) != "/repo" || os.Getenv("NRIVERIF_NOEVIDENCE") != ""
	return report(vdir, *prop, *tier, seed, results, t0, *verbose, *updateBaseline, partial)
}

func hasStr(xs []string, s string) bool {
	for _, x := range xs {
		if x == s {
			return true
		}
	}
	return false
}

func loadKnown(vdir string) []KnownFinding {
	var kf []KnownFinding
	data, err := os.ReadFile(filepath.Join(vdir, "known_findings.json"))
	if err == nil {
		json.Unmarshal(data, &kf)
	}
	return kf
}

func loadNames(vdir string) map[string]engine.NameTable {
	m := map[string]engine.NameTable{}
	if data, err := os.ReadFile(filepath.Join(vdir, "baseline_names.json")); err == nil {
		json.Unmarshal(data, &m)
	}
	return m
}

func loadBaseline(vdir string) *Baseline {
	b := &Baseline{Discharged: map[string][]string{}}
	data, err := os.ReadFile(filepath.Join(vdir, "baseline_obligations.json"))
	if err == nil {
		json.Unmarshal(data, b)
	}
	if b.Discharged == nil {
		b.Discharged = map[string][]string{}
	}
	return b
}

func unitInBaseline(inBaseline map[string]bool, name string) bool {
	unit := name
	if i := strings.Index(name, "#"); i >= 0 {
		unit = name[:i]
	}
	for n := range inBaseline {
		if strings.HasPrefix(n, unit+"#") {
			return true
		}
	}
	return false
}

func report(vdir, prop, tier string, seed int, results []*engine.UnitResult, t0 time.Time, verbose, updateBaseline, partial bool) int {
	known := loadKnown(vdir)
	baseline := loadBaseline(vdir)
	inBaseline := map[string]bool{}
	for _, n := range baseline.Discharged[prop] {
		inBaseline[n] = true
	}
	isKnown := func(kfid string) *KnownFinding {
		for i := range known {
			if known[i].ID == kfid && known[i].Status == "known" {
				return &known[i]
			}
		}
		return nil
	}

	broken := 0
	var violations []string
	kfLines := []string{}
	undecided := []string{}
	notes := []string{}
	nObl, nDis := 0, 0
	nBounded, nBoundedDis := 0, 0
	byBackend := map[string]int{}
	solverTime := 0.0
	assumptions := map[string]bool{}
	var funcs []string
	replayFuncs := []string{}
	var samples []map[string]interface{}
	var dischargedNames []string
	vac := map[string]int{"cover_obligations": 0, "covered": 0}
	deferred := 0
	nCached := 0
	os.MkdirAll(filepath.Join(vdir, "replays", prop), 0o755)

	sort.Slice(results, func(i, j int) bool { return results[i].Unit < results[j].Unit })
	for _, r := range results {
		if len(r.Relaxed) > 0 {
			notes = append(notes, fmt.Sprintf("%s writes locations in a loop that its loop frame does not list (%s); verified again with those locations havocked by the loop, results below are from that pass", r.Unit, strings.Join(r.Relaxed, ", ")))
		}
		if r.Err != nil {
			// a unit whose obligations were discharged on the unchanged tree and whose contract
			// no longer binds to the code (loop removed, callee changed, ...) fails verification
			wasProved := false
			for n := range inBaseline {
				if strings.HasPrefix(n, r.Unit+"#") {
					wasProved = true
					break
				}
			}
			if wasProved {
				if os.Getenv("NRIVERIF_DEBUG") != "" {
					fmt.Fprintln(os.Stderr, r.Err.Error())
				}
				o := &engine.Obligation{Name: r.Unit + "#binding", Kind: "binding", Desc: "the contract no longer applies to the code: " + firstLine(r.Err.Error()), Pos: r.Pos, Status: "unbound"}
				violations = append(violations, writeViolation(vdir, prop, o, "contract of a previously verified function cannot be applied to the changed code"))
				continue
			}
			fmt.Printf("CHECK-BROKEN: unit %s (%s): %v\n", r.Unit, r.Pos, r.Err)
			broken++
			continue
		}
		funcs = append(funcs, r.Unit)
		if replayable(r) {
			replayFuncs = append(replayFuncs, r.Unit)
		}
		deferred += r.VC.Deferred
		for a := range r.VC.Assume {
			assumptions[a] = true
		}
		for _, o := range r.VC.Obls {
			if !oblServes(o, prop) {
				continue
			}
			solverTime += o.TimeS
			if o.Cached {
				nCached++
			}
			if o.Cover {
				vac["cover_obligations"]++
				switch o.Status {
				case "sat":
					vac["covered"]++
					nObl++
					nDis++
					byBackend[o.Solver]++
					dischargedNames = append(dischargedNames, o.Name)
				case "unsat":
					// after a failed obligation of the same unit everything later is assumed under a
					// false hypothesis: the unreachable exit is a consequence of that failure, not a
					// vacuous contract
					failedBefore := false
					for _, o2 := range r.VC.Obls {
						if !o2.Cover && o2.KF == "" && o2.Status == "sat" {
							failedBefore = true
						}
					}
					if failedBefore {
						notes = append(notes, "exit unreachable after the failed obligation(s) of "+r.Unit)
					} else {
						fmt.Printf("CHECK-BROKEN: vacuous: %s — %s\n", o.Name, o.Desc)
						broken++
					}
				default:
					notes = append(notes, "cover undecided: "+o.Name)
				}
				continue
			}
			if o.KF != "" {
				kf := isKnown(o.KF)
				switch {
				case o.Status == "unsat":
					notes = append(notes, fmt.Sprintf("known finding %s no longer reproduces at %s", o.KF, o.Name))
				case kf != nil:
					kfLines = append(kfLines, fmt.Sprintf("KNOWN-FINDING: property=%s %s %s [%s, %s]", prop, o.Name, kf.What, o.KF, o.Status))
				default:
					// marked in the contract but not listed as a known finding: a violation
					violations = append(violations, writeViolation(vdir, prop, o, "clause marked known-finding "+o.KF+" but not listed in known_findings.json"))
				}
				continue
			}
			if o.Bounded {
				nBounded++
			} else {
				nObl++
			}
			switch o.Status {
			case "unsat":
				if o.Bounded {
					nBoundedDis++
				} else {
					nDis++
				}
				byBackend[o.Solver]++
				dischargedNames = append(dischargedNames, o.Name)
				if len(samples) < 6 && (o.Kind == "ensures" || o.Kind == "inv" || o.Kind == "lemma") {
					samples = append(samples, map[string]interface{}{"obligation": o.Name, "kind": o.Kind, "desc": o.Desc, "answer": o.Status, "solver": o.Solver, "smt_chars": len(o.Hyp) + len(o.Goal)})
				}
			case "sat":
				violations = append(violations, writeViolationReplayed(vdir, prop, o, tryReplay(r, o)))
			default:
				if inBaseline[o.Name] {
					violations = append(violations, writeViolation(vdir, prop, o, "obligation discharged on the unchanged tree is no longer discharged (solvers: "+o.Status+")"))
				} else if o.Kind == "frame" && unitInBaseline(inBaseline, o.Name) {
					// a frame obligation is also an assumption: everything after the loop (or in the
					// callers) was proved assuming the writes stay inside the modifies clause.  A new
					// write target in a function that was fully verified on the unchanged tree leaves
					// those proofs without their premise.
					violations = append(violations, writeViolation(vdir, prop, o, "a previously verified function writes to a location outside its modifies clause that was not written on the unchanged tree (solvers: "+o.Status+")"))
				} else {
					undecided = append(undecided, o.Name)
				}
			}
			if verbose {
				fmt.Printf("  %-8s %-10s %5.1fs %s   [%s @%s]\n", o.Status, o.Solver, o.TimeS, o.Name, o.Desc, o.Pos)
			}
		}
	}
	if len(results) == 0 {
		fmt.Printf("CHECK-BROKEN: no units under contract serve property %s\n", prop)
		broken++
	}
	if nObl == 0 && broken == 0 {
		fmt.Printf("CHECK-BROKEN: zero obligations generated for %s\n", prop)
		broken++
	}
	// obligations of the baseline that disappeared entirely (e.g. a contract no longer binds)
	if !partial && broken == 0 {
		have := map[string]bool{}
		for _, r := range results {
			if r.VC != nil {
				for _, o := range r.VC.Obls {
					have[o.Name] = true
				}
			}
		}
		missing := 0
		for n := range inBaseline {
			if !have[n] {
				missing++
				if verbose {
					notes = append(notes, "baseline obligation not generated any more: "+n)
				}
			}
		}
		if missing > 0 {
			notes = append(notes, fmt.Sprintf("%d baseline obligations were not generated on this tree (renamed or restructured code)", missing))
		}
	}

	wall := time.Since(t0).Seconds()
	for _, l := range kfLines {
		fmt.Println(l)
	}
	for _, n := range notes {
		fmt.Println("NOTE:", n)
	}
	for _, u := range undecided {
		fmt.Println("UNDECIDED:", u)
	}
	for _, v := range violations {
		fmt.Println(v)
	}
	fmt.Printf("%s [%s]: %d units, %d/%d obligations discharged (+%d/%d bounded), %d known findings, %d undecided, %d violations, %.1fs\n",
		prop, tier, len(funcs), nDis, nObl, nBoundedDis, nBounded, len(kfLines), len(undecided), len(violations), wall)

	if broken > 0 && len(violations) == 0 {
		return 2
	}

	// evidence
	alist := []string{}
	for a := range assumptions {
		alist = append(alist, a)
	}
	sort.Strings(alist)
	// standing assumptions of the encoding (DESIGN.md S6), the same for every property
	alist = append(alist,
		"encoding: Go int/uint arithmetic is treated as mathematical integer arithmetic (overflow of lengths and counters is not modelled), except in lemmas marked bitvector",
		"encoding: every function is verified as sequential code under its lock typestate; goroutine interleavings are not explored and `go` statements only leave a ghost log entry",
		"encoding: callers are checked against callee contracts, not bodies; a contract marked trusted or extern is assumed, not verified (each one that was used is listed above)",
		"encoding: termination is proved only for loops with a decreases clause; panics are proved absent, not modelled; defers run at function exit in reverse order",
		"encoding: map iteration visits every key once in an arbitrary order; select picks any ready case; a receive on a channel type nothing in the repository sends on completes only after close",
		"encoding: protobuf-internal fields and the contents of objects returned by external calls are unconstrained; no unsafe code is in the verified functions",
	)
	if len(samples) == 0 {
		samples = append(samples, map[string]interface{}{"note": "no ensures/invariant obligations in this run"})
	}
	ev := map[string]interface{}{
		"property_id": prop,
		"tier":        tier,
		"seed":        seed,
		"level":       "proof",
		"coverage": map[string]interface{}{
			"obligations":              nObl,
			"discharged":               nDis,
			"checker_cmd":              fmt.Sprintf("bin/nriverif check --property %s --tier %s", prop, tier),
			"trusted_base":             trustedBase(),
			"functions_under_contract": funcs,
			"counterexample_replay": map[string]interface{}{
				"how":                  "a sat model of an obligation of a function with scalar parameters and scalar/error results is turned into a Go test, injected with go test -overlay and run on the tree being checked; confirmed when the real code returns what the model predicts (or panics, for a safety obligation)",
				"replayable_functions": replayFuncs,
				"not_replayed":         "functions with pointer, slice, map or interface parameters or a receiver: the model is a heap; their VIOLATION lines end with no-failing-input-found",
			},
			"by_backend":               byBackend,
			"solver_time_s":            solverTime,
			"bounded_obligations":      nBounded,
			"bounded_discharged":       nBoundedDis,
			"undecided":                undecided,
			"known_findings":           kfLines,
			"vacuity":                  vac,
			"samples":                  samples,
			"notes":                    notes,
			"clauses_deferred_to_thorough_tier": deferred,
			"answers_from_query_cache":          nCached,
		},
		"assumptions": alist,
		"wall_s":      wall,
		"violations":  len(violations),
	}
	if !partial {
		os.MkdirAll(filepath.Join(vdir, "evidence"), 0o755)
		data, _ := json.MarshalIndent(ev, "", " ")
		os.WriteFile(filepath.Join(vdir, "evidence", prop+".json"), data, 0o644)
	}
	if updateBaseline && len(violations) == 0 && !partial {
		nm := loadNames(vdir)
		for _, r := range results {
			if r.Contract != nil && r.Err == nil {
				nm[r.Unit] = r.Names
			}
		}
		nd, _ := json.MarshalIndent(nm, "", " ")
		os.WriteFile(filepath.Join(vdir, "baseline_names.json"), nd, 0o644)
		sort.Strings(dischargedNames)
		baseline.Discharged[prop] = dischargedNames
		data, _ := json.MarshalIndent(baseline, "", " ")
		os.WriteFile(filepath.Join(vdir, "baseline_obligations.json"), data, 0o644)
	}
	if len(violations) > 0 {
		return 1
	}
	return 0
}

func firstLine(s string) string {
	if i := strings.Index(s, "\n"); i >= 0 {
		return s[:i]
	}
	return s
}

func oblServes(o *engine.Obligation, prop string) bool {
	return hasStr(o.Props, prop)
}

func trustedBase() []string {
	return []string{
		"golang.org/x/tools/go/ssa v0.29.0 (Go semantics as SSA)",
		"nriverif VC generator (this repository; guarded by must-fail corpus and vacuity checks)",
		"SMT solvers z3 5.1.0 / cvc5 1.0.3 / z3 4.8.12",
		"Go compiler and runtime; sync, context, fmt, strings (models listed under assumptions when used)",
	}
}

func writeViolation(vdir, prop string, o *engine.Obligation, reason string) string {
	return writeViolationReplayed(vdir, prop, o, replayOutcome{Why: reason})
}

// writeViolationReplayed writes the replay file; the VIOLATION line ends with
// no-failing-input-found unless the solver's model was confirmed on the real code.
func writeViolationReplayed(vdir, prop string, o *engine.Obligation, rp replayOutcome) string {
	reason := rp.Why
	name := strings.NewReplacer("/", "_", "#", "_", " ", "_", ":", "_", "*", "_", "|", "_").Replace(o.Name)
	path := filepath.Join(vdir, "replays", prop, name+".json")
	rec := map[string]interface{}{
		"property":    prop,
		"obligation":  o.Name,
		"kind":        o.Kind,
		"description": o.Desc,
		"position":    o.Pos,
		"status":      o.Status,
		"solver":      o.Solver,
		"reason":      reason,
		"model":       o.Model,
		"crosses_abstracted_call": o.Abstr,
		"replayed_on_real_code":   rp.Confirmed,
	}
	if rp.Attempted {
		rec["replay"] = map[string]interface{}{"call": rp.Call, "model_predicts": rp.Predicted, "real_code": rp.Actual, "confirmed": rp.Confirmed, "test": rp.Test, "go_test_output": rp.Output, "note": rp.Why}
	}
	data, _ := json.MarshalIndent(rec, "", " ")
	os.WriteFile(path, data, 0o644)
	if rp.Confirmed {
		return fmt.Sprintf("VIOLATION property=%s replay=%s obligation=%s (%s) replayed-on-real-code: %s %s", prop, path, o.Name, o.Desc, rp.Call, rp.Actual)
	}
	return fmt.Sprintf("VIOLATION property=%s replay=%s obligation=%s (%s) no-failing-input-found", prop, path, o.Name, o.Desc)
}

// matchOnly: --func X selects units whose name contains X; --func =X selects the unit named exactly X.
func matchOnly(name, only string) bool {
	if strings.HasPrefix(only, "=") {
		return name == only[1:]
	}
	return strings.Contains(name, only)
}
